"""Regenerate MANIFEST.json from the table below (keeps not_applicable complete)."""
import json, os, sys
sys.path.insert(0, os.path.dirname(os.path.dirname(os.path.abspath(__file__))))
from simkit.registry import CHECKS, NA_REASONS, ENGINE_INFO

props = [json.loads(l) for l in open('/verif/properties.jsonl')]
ids = [p['id'] for p in props]
checks = []
for pid in ids:
    if pid in CHECKS:
        c = CHECKS[pid]
        checks.append({
            "property_id": pid,
            "quick_cmd": "/venv/bin/python -m simkit check %s --tier quick" % pid,
            "thorough_cmd": "/venv/bin/python -m simkit check %s --tier thorough" % pid,
            "evidence_file": "/verif/evidence/%s.json" % pid,
            "replay_cmd_template": "/venv/bin/python -m simkit replay {path}",
            "engine": c["engine"],
            "level_claimed": {"category": c["level"], "text": c["text"], "design_ref": c["design_ref"]},
            "level_note": c["note"],
            "technique": c["technique"],
        })
na = []
for pid in ids:
    if pid not in CHECKS:
        na.append({"property_id": pid, "reason": NA_REASONS[pid]})
m = {
    "version": 1,
    "setup_cmd": "/venv/bin/python -m simkit selfcheck-env",
    "hooks": {
        "guard": "CYTHON_VERIF_SIM",
        "enable": "no source hooks are needed: every seam is reached from outside (module-global shadowing, audit hooks, link-time replacement of libgomp, the Scanner's stream argument, seam objects passed into workloads); the guard name is reserved",
        "baseline_off_cmd": "cd /repo && /venv/bin/python -m pytest -ra -q -p no:cacheprovider --timeout=900 --continue-on-collection-errors",
        "source_commits": [],
        "add_only": True,
    },
    "engines": [dict(name=k, **v) for k, v in ENGINE_INFO.items()],
    "checks": checks,
    "not_applicable": na,
    "notes": "Deterministic simulation with fault injection; see DESIGN.md. Exit 2 + HARNESS-ERROR means the harness itself failed (never a pass).",
}
json.dump(m, open('/verif/MANIFEST.json', 'w'), indent=1)
print("claimed", len(checks), "n/a", len(na))
