#!/bin/bash
# usage: tools/try_seeded.sh <worktree-with-patch-applied> "<props>" [tier]
# Runs the registered checks against a scratch worktree (VERIF_REPO) instead of /repo, so that background
# runs using /repo are not disturbed; evidence files are restored afterwards (they must only come from /repo).
wt="$1"; props="$2"; tier="${3:-quick}"
for p in $props; do
  out=$(VERIF_REPO="$wt" timeout 1800 /venv/bin/python -m simkit check $p --tier $tier 2>&1 | grep "VIOLATION\|^OK\|^FAIL\|HARNESS-ERROR" | cut -c1-700 | head -4)
  echo "[$p on $wt] $out"
done
git -C /verif checkout -- evidence
