#!/bin/bash
# usage: tools/confirm_seeded.sh <worktree> <dest-name> <property>
# Confirms an agent-written breaking change myself: demo passes on clean tree, fails with patch,
# pinned pytest still shows 504 passed with patch.  Copies artefacts to /verif/seeded/<dest-name>/.
set -u
wt="$1"; name="$2"; prop="$3"
dest=/verif/seeded/$name
cd "$wt" || exit 3
[ -f _seeded/patch.diff ] && [ -f _seeded/demo.py ] || { echo "missing deliverables"; exit 3; }
git checkout -q -- Cython pyximport cython.py
git apply --check _seeded/patch.diff || { echo "patch does not apply to clean tree"; exit 3; }
PYTHONPATH="$wt" timeout 400 /venv/bin/python _seeded/demo.py > /tmp/demo_clean.$$ 2>&1; rc_clean=$?
git apply _seeded/patch.diff
PYTHONPATH="$wt" timeout 400 /venv/bin/python _seeded/demo.py > /tmp/demo_patched.$$ 2>&1; rc_patched=$?
pyt=$(timeout 900 /venv/bin/python -m pytest -q -p no:cacheprovider --timeout=900 --continue-on-collection-errors 2>&1 | tail -1)
rm -f tests/run/_cython_inline_*.pyx
echo "demo clean rc=$rc_clean  patched rc=$rc_patched  pytest: $pyt"
ok=no
if [ $rc_clean -eq 0 ] && [ $rc_patched -ne 0 ] && echo "$pyt" | grep -q "504 passed"; then ok=yes; fi
echo "confirmed=$ok"
if [ $ok = yes ]; then
  mkdir -p "$dest"
  cp _seeded/patch.diff _seeded/demo.py "$dest"/
  [ -f _seeded/notes.md ] && cp _seeded/notes.md "$dest"/
  tail -5 /tmp/demo_patched.$$ > "$dest"/demo_output_patched.txt
  cat > "$dest"/meta.json <<J
{
 "property": "$prop",
 "source": "independent sub-agent given only the property text and a scratch worktree",
 "confirmed_by_me": {
  "demo_on_clean_tree_exit": $rc_clean,
  "demo_with_patch_exit": $rc_patched,
  "pinned_pytest_with_patch": "$pyt",
  "commands": ["git apply _seeded/patch.diff", "PYTHONPATH=<wt> /venv/bin/python _seeded/demo.py", "/venv/bin/python -m pytest -q -p no:cacheprovider --timeout=900 --continue-on-collection-errors"]
 },
 "needs_to_manifest": "see notes.md",
 "detected_by": "TBD"
}
J
fi
rm -f /tmp/demo_clean.$$ /tmp/demo_patched.$$
