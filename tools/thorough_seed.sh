#!/bin/bash
# usage: tools/thorough_seed.sh <seed> <budget_s> "<props>"
s="$1"; b="$2"; props="$3"
for p in $props; do
  out=$(VERIF_BUDGET_S=$b VERIF_SEED=$s timeout 7200 /venv/bin/python -m simkit check $p --tier thorough 2>&1 | grep "VIOLATION\|^OK\|^FAIL\|HARNESS-ERROR" | cut -c1-500 | head -4)
  echo "thorough seed=$s b=$b $p :: $out"
done
