#!/bin/bash
# usage: tools/soak.sh "<seeds>" "<props>" [tier]   — prints one result line per (prop, seed); never edits evidence in /verif proper when run from a vp-run snapshot
seeds="${1:-1 2 3}"; props="${2:-C49 C50 C48 C46 C42 C23 C22 C44 C35 C26 C27 C14 C37 C45 C36 C39}"; tier="${3:-quick}"
for s in $seeds; do for p in $props; do
  out=$(VERIF_SEED=$s timeout 3000 /venv/bin/python -m simkit check $p --tier $tier 2>&1 | grep "VIOLATION\|^OK\|^FAIL\|HARNESS-ERROR" | cut -c1-400 | head -5)
  echo "seed=$s $p :: $out"
done; done
