#!/bin/bash
# usage: tools/mutant.sh <patch> <cmd...>   — apply patch to /repo, run cmd, always revert
set -u
patch="$(realpath "$1")"; shift
git -C /repo apply "$patch" || { echo "patch does not apply"; exit 3; }
"$@"; rc=$?
git -C /repo checkout -- . 
echo "mutant exit=$rc"
exit $rc
