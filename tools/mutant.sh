#!/bin/bash
# usage: tools/mutant.sh <patch> <cmd...>   — apply patch to /repo, run cmd, ALWAYS revert (also on signals)
set -u
patch="$(realpath "$1")"; shift
revert() { git -C /repo checkout -- . ; }
trap 'revert; echo "mutant reverted (signal)"; exit 143' TERM INT HUP
git -C /repo apply "$patch" || { echo "patch does not apply"; exit 3; }
"$@" &
pid=$!
wait $pid; rc=$?
revert
echo "mutant exit=$rc"
exit $rc
