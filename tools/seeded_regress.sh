#!/bin/bash
# usage: tools/seeded_regress.sh [name-glob]   — for every seeded change (and own mutant) apply it in a scratch worktree of /repo HEAD,
# run the quick check of its property against that worktree (VERIF_REPO), expect a VIOLATION; prints one line each.
# Evidence files in /verif are restored afterwards (evidence must only come from /repo itself).
pat="${1:-*}"
here="$(cd "$(dirname "$0")/.." && pwd)"      # the /verif copy this script lives in (a vp-run snapshot or /verif itself)
cd "$here"
wt=/tmp/wt-regress-$$
git -C /repo worktree add --detach $wt >/dev/null 2>&1 || { echo "cannot create worktree"; exit 3; }
trap 'git -C /repo worktree remove --force '$wt' >/dev/null 2>&1' EXIT
run() {   # name prop patch
  git -C $wt checkout -q -- . ; git -C $wt clean -fdq
  if ! git -C $wt apply "$3" 2>/dev/null; then echo "$1 :: PATCH-DOES-NOT-APPLY"; return; fi
  out=$(VERIF_REPO=$wt timeout 2400 /venv/bin/python -m simkit check $2 --tier quick 2>&1 | grep "VIOLATION\|^OK\|^FAIL\|HARNESS-ERROR" | head -2 | cut -c1-220 | tr '\n' ' ')
  case "$out" in *VIOLATION*) r=CAUGHT;; *) r=MISSED;; esac
  echo "$1 [$2] :: $r :: $out"
}
for d in $here/seeded/$pat/; do
  [ -f $d/meta.json ] || continue
  name=$(basename $d); prop=$(/venv/bin/python -c "import json;print(json.load(open('$d/meta.json'))['property'])")
  p=$d/patch.diff; [ -f $d/patch_rebased.diff ] && p=$d/patch_rebased.diff
  run $name $prop $p
done
for m in $here/mutants/$pat.patch; do
  [ -f $m ] || continue
  name=$(basename $m .patch); prop=${name%%-*}
  run mutant:$name $prop $m
done
git -C "$here" checkout -- evidence
