"""Print the prompt given to an independent breakage sub-agent for one property."""
import json, sys
pid, wt = sys.argv[1], sys.argv[2]
variant = sys.argv[3] if len(sys.argv) > 3 else ""
for l in open('/verif/properties.jsonl'):
    p = json.loads(l)
    if p['id'] == pid:
        break
print(f"""You are helping evaluate a verification effort for the Cython compiler (cython/cython, a Python->C compiler written in Python). You have your own scratch git worktree of the repository at {wt} (detached HEAD). Work ONLY inside {wt}. Never read or touch /repo or /verif. The worktree has the pure-Python compiler (no self-compiled .so files); run it with `cd {wt} && PYTHONPATH={wt} /venv/bin/python ...` (e.g. `PYTHONPATH={wt} /venv/bin/python {wt}/cython.py foo.pyx`, or `from Cython.Build import cythonize` / `cython.inline`; gcc is available; Python is 3.12 at /venv/bin/python). There is no network.

Here is a semantic property of Cython that should hold:

id: {p['id']}
title: {p['title']}
statement: {p['statement']}
quantified over: {p['quantifier']['text']}
code anchors: files {p['anchors']['files']}; mechanisms {json.dumps(p['anchors']['mechanism'])}

YOUR TASK: write ONE realistic change (a bug a developer could plausibly introduce in a refactor/optimisation/cleanup: a few lines, not sabotage-looking, no new env vars or magic inputs) to the Cython sources under {wt}/Cython (compiler Python code and/or Cython/Utility/*.c / *.pyx runtime helper code) that BREAKS this property, while:
  1. Cython still works: the compiler still runs and ordinary modules still compile and run.
  2. the existing pinned test suite still passes exactly as before: `cd {wt} && /venv/bin/python -m pytest -q -p no:cacheprovider --timeout=900 --continue-on-collection-errors 2>&1 | tail -3` must still report `504 passed` (18 failed / 7 errors are pre-existing and expected; run it BEFORE your change too, to see the baseline - takes ~10 s).
  3. the breakage needs something SPECIFIC to manifest - a particular interleaving or ordering, a crash/fault/exception at a particular point, a multi-step sequence of operations, an unusual input/configuration, or two cooperating sites that each look fine alone. NOT something ordinary use would expose immediately (a trivial hello-world compile+run must still behave correctly). {variant}
  4. you provide a demonstration: a small self-contained script {wt}/_seeded/demo.py (it may write temp files under a tempfile.mkdtemp() dir, compile modules with the worktree's Cython and gcc, etc.) that exits 0 and prints PASS on the ORIGINAL code and exits 1 and prints FAIL (with what went wrong) on the CHANGED code. It is run as `cd {wt} && PYTHONPATH={wt} /venv/bin/python _seeded/demo.py`. It must be deterministic and finish in under 3 minutes.

Deliverables, all in {wt}/_seeded/ :
  - patch.diff : output of `git -C {wt} diff -- Cython pyximport cython.py` (the change only; must apply with `git apply` to a clean checkout of the same commit)
  - demo.py : as above
  - notes.md : 5-15 lines: what the change is, why it breaks the property, exactly what is needed for it to manifest, and the commands you ran with their results (pytest tail before/after, demo before/after).
Verify everything yourself: run demo.py with the change applied (must FAIL) and with it reverted via `git apply -R _seeded/patch.diff` (must PASS; NEVER use `git stash` - the stash is shared between worktrees and other agents use it), then leave the worktree WITH the change applied. Do not commit. Keep your final reply short: one paragraph summarising the change and the verification results."""
)
