#!/bin/bash
# usage: tools/thorough_smoke.sh [budget_s] [props]  — runs the thorough tier of each check with a small budget (smoke test of the thorough code paths)
b="${1:-240}"; props="${2:-C49 C50 C48 C46 C42 C23 C22 C44 C35 C26 C27 C14 C37 C45 C36 C39}"
for p in $props; do
  out=$(VERIF_BUDGET_S=$b VERIF_SEED=7 timeout 3600 /venv/bin/python -m simkit check $p --tier thorough 2>&1 | grep "VIOLATION\|^OK\|^FAIL\|HARNESS-ERROR" | cut -c1-400 | head -4)
  echo "thorough b=$b $p :: $out"
done
