"""E1 cache-sim — C48.  Real cythonize()/Main.compile() with cache=<dir> in
real forked child processes (one per checkout directory, all sharing one
cache directory).  Every I/O call Cache.py makes goes through a seam that
parks the child until the central seeded scheduler grants the step; at a
granted step the scheduler may instead kill the child (SIGKILL) or make the
call raise OSError.  Oracle: whatever an invocation that reports success
wrote equals a fresh uncached compilation of the same inputs and options.
"""
import errno
import hashlib
import json
import os
import shutil
import signal
import socket
import sys
import time
import traceback

from . import core

PROP = "C48"
ENGINE = "E1-cache-sim"


# --------------------------------------------------------------------------
# generated project

def render(name, st):
    """Text of a project file from its state dict."""
    v = st["v"]
    if name.endswith(".pxd"):
        base = name[:-4]
        s = "".join("cimport %s\n" % c for c in st.get("cimports", ()))
        # the header name carries the version: every module that transitively cimports this
        # file gets '#include "h_<name>_<v>.h"' in its C file, so an edit here changes their output
        s += 'cdef extern from "h_%s_%d.h":\n    int x_%s\n' % (base, v, base)
        s += "cdef enum:\n    %sK = %d\n" % (base.upper(), 200 + v)
        return s
    if name == "i0.pxi":
        return "PXI_CONST = %d\n" % (300 + v)
    # module
    if v < 0:
        return "# broken %d\ndef f(:\n    return 1\n" % v
    s = "# module %s version %d\n" % (name, v)
    for c in st.get("cimports", ()):
        s += "cimport %s\n" % c
    if st.get("include"):
        s += 'include "i0.pxi"\n'
    s += "\ndef f(a, b):\n    return a // b + %d" % v
    for c in st.get("cimports", ()):
        s += " + %s.%sK" % (c, c.upper())
    if st.get("include"):
        s += " + PXI_CONST"
    s += "\n\ndef g(int a, int b):\n    return a // b\n"
    s += "\ndef h(list l, int i):\n    \"\"\"doc\"\"\"\n    return l[i]\n"
    s += "\ncdef int cf(int x):\n    return x - 1\n\ndef k(x):\n    return cf(x)\n"      # exception spec depends on legacy_implicit_noexcept
    if st.get("public"):
        s += "\ncdef public int pubf%d(int x):\n    return x + %d\n" % (abs(v) % 3, v)
    return s


def gen_project(rng):
    files = {}
    nmod = rng.choice([1, 1, 2, 2, 3])
    npxd = rng.choice([0, 1, 2, 3, 3, 4, 5])
    has_pxi = rng.random() < 0.4
    if rng.random() < 0.12:
        # two OVERLAPPING cimport cycles (d0 <-> d1, d1 <-> d2) with a chain behind the outer head (d0 -> d3 -> d4 [-> d5]);
        # the modules enter at different cycle nodes, so the second one meets memoised results of the first
        npxd = rng.choice([5, 5, 6])
        pxds = ["d%d" % k for k in range(npxd)]
        edges = {"d0": ["d3", "d1"], "d1": ["d0", "d2"], "d2": ["d1"], "d3": ["d4"], "d4": ["d5"] if npxd == 6 else []}
        if npxd == 6:
            edges["d5"] = []
        if rng.random() < 0.3:
            edges["d2"].append(rng.choice(["d0", "d3"]))
        for d in pxds:
            files[d + ".pxd"] = {"v": 0, "cimports": edges[d]}
        if has_pxi:
            files["i0.pxi"] = {"v": 0}
        entry = rng.choice([["d0", "d1"], ["d0", "d1"], ["d0", "d2"], ["d1", "d0"], ["d0", "d1", "d2"]])
        for k, e in enumerate(entry):
            files["m%d.pyx" % k] = {"v": k, "cimports": [e], "include": has_pxi and rng.random() < 0.3, "public": False}
        return files
    pxds = ["d%d" % k for k in range(npxd)]
    if npxd >= 3 and rng.random() < 0.5:
        # shaped graph: a cimport cycle with a tail chain hanging off it, modules entering at different cycle nodes
        # (uniform random edges rarely produce 'cycle + chain of length >= 2 behind it')
        ncyc = rng.randint(2, min(3, npxd - 1))
        cyc, tail = pxds[:ncyc], pxds[ncyc:]
        edges = {d: [] for d in pxds}
        for j, d in enumerate(cyc):
            edges[d].append(cyc[(j + 1) % ncyc])
        prev = rng.choice(cyc)
        for t in tail:
            edges[prev].append(t)
            prev = t if rng.random() < 0.8 else rng.choice(cyc)
        for d in pxds:
            files[d + ".pxd"] = {"v": 0, "cimports": edges[d]}
        if has_pxi:
            files["i0.pxi"] = {"v": 0}
        nmod = max(nmod, 2)
        for k in range(nmod):
            cim = [cyc[k % ncyc]] if rng.random() < 0.85 else [rng.choice(pxds)]
            files["m%d.pyx" % k] = {"v": k, "cimports": cim, "include": has_pxi and rng.random() < 0.5,
                                    "public": False}
        return files
    for k, d in enumerate(pxds):
        others = [x for x in pxds if x != d]
        cim = []
        if others:
            # chains, diamonds and cycles (back edges allowed)
            for x in others:
                if rng.random() < (0.45 if npxd <= 3 else 0.32):
                    cim.append(x)
        files[d + ".pxd"] = {"v": 0, "cimports": cim}
    if has_pxi:
        files["i0.pxi"] = {"v": 0}
    for k in range(nmod):
        cim = [d for d in pxds if rng.random() < (0.5 if npxd <= 2 else 0.3)]
        files["m%d.pyx" % k] = {"v": k, "cimports": cim,
                                "include": has_pxi and rng.random() < 0.8,
                                "public": rng.random() < 0.15}
    return files


OPTION_POOL = [
    ("directive", "cdivision", True),
    ("directive", "boundscheck", False),
    ("directive", "wraparound", False),
    ("directive", "embedsignature", True),
    ("directive", "binding", False),
    ("directive", "initializedcheck", False),
    ("directive", "nonecheck", True),
    ("directive", "always_allow_keywords", False),
    ("directive", "language_level", 2),
    ("option", "language_level", 2),
    ("option", "language_level", "3str"),
    ("option", "emit_linenums", True),
    ("option", "c_line_in_traceback", False),
    ("option", "cplus", True),
    ("option", "relative_path_in_code_position_comments", False),
    ("option", "generate_pxi", True),
    ("option", "fast_fail", True),
    ("option", "warning_errors", True),
    ("option", "annotate", True),
    ("option", "gdb_debug", True),
    ("option", "legacy_implicit_noexcept", True),
    ("directive", "profile", True),
    ("directive", "overflowcheck", True),
    ("directive", "c_string_type", "str"),
]


EXT_POOL = [("libraries", ["m"]), ("define_macros", [["VERIF_X", "1"]]), ("extra_compile_args", ["-O1"]), ("include_dirs", ["inc"]), ("language", "c")]


def gen_history(rng, files, cfg):
    nco = rng.choice([1, 2, 2, 2, 3])
    steps = []
    n = rng.randint(3, cfg["maxsteps"])
    mods = sorted(f for f in files if f.endswith(".pyx"))
    others = sorted(f for f in files if not f.endswith(".pyx"))
    opts = {}    # current option deltas per checkout
    exts = {}    # current per-module Extension settings per checkout (cythonize only): they go into the embedded metadata block
    api = rng.choice(["cythonize", "cythonize", "compile"])
    vcounter = [10]

    def inv(co):
        ms = list(mods)
        rng.shuffle(ms)
        if rng.random() < 0.3:
            ms = ms[:rng.randint(1, len(ms))]
        if api == "compile":
            ms = ms[:1]
        spec = {"co": co, "api": api, "modules": ms, "opts": dict(opts.get(co, {})),
                "fresh_checkout": rng.random() < 0.8}
        if api == "cythonize" and exts.get(co):
            spec["ext"] = {m: dict(v) for m, v in exts[co].items() if m in ms and v}
        if rng.random() < 0.08:
            spec["cache_size"] = rng.choice([0, 1, 500, 4000])
        return spec
    steps.append({"op": "invoke", "invs": [inv(0)]})
    for _ in range(n - 1):
        r = rng.random()
        co = rng.randrange(nco)
        if r < 0.40:
            invs = [inv(co)]
            if nco > 1 and rng.random() < 0.45:
                co2 = rng.choice([c for c in range(nco) if c != co])
                invs.append(inv(co2))
            steps.append({"op": "invoke", "invs": invs})
        elif r < 0.50:
            f = rng.choice(mods)
            vcounter[0] += 1
            steps.append({"op": "edit", "co": co if rng.random() < 0.5 else "all", "file": f, "v": vcounter[0]})
        elif r < 0.68 and others:
            f = rng.choice(others)
            vcounter[0] += 1
            steps.append({"op": "edit", "co": co if rng.random() < 0.5 else "all", "file": f, "v": vcounter[0]})
        elif r < 0.74:
            f = rng.choice(mods + others)
            steps.append({"op": "revert", "co": co if rng.random() < 0.5 else "all", "file": f})
        elif r < 0.88:
            kind, key, val = rng.choice(OPTION_POOL)
            cur = dict(opts.get(co, {}))
            k = "%s:%s" % (kind, key)
            if k in cur:
                del cur[k]
            else:
                cur[k] = val
            opts[co] = cur
            steps.append({"op": "setopt", "co": co, "opts": cur})
            steps.append({"op": "invoke", "invs": [inv(co)]})
        elif r < 0.905 and api == "cythonize":
            # change one distutils setting of one module's Extension (same sources, same options): only the metadata differs
            m = rng.choice(mods)
            key, val = rng.choice(EXT_POOL)
            cur = {k: dict(v) for k, v in exts.get(co, {}).items()}
            e = cur.setdefault(m, {})
            if key in e:
                del e[key]
            else:
                e[key] = val
            exts[co] = cur
            steps.append({"op": "setext", "co": co, "module": m, "ext": cur})
            steps.append({"op": "invoke", "invs": [inv(co)]})
        elif r < 0.94:
            f = rng.choice(mods)
            steps.append({"op": "edit", "co": co, "file": f, "v": -vcounter[0]})
            steps.append({"op": "invoke", "invs": [inv(co)]})
        else:
            steps.append({"op": "restart", "co": co})
    # deep-dependency scenario: build everything, edit the .pxd that sits deepest behind the others, build everything again
    # from a fresh checkout (only the cache can supply - or wrongly supply - the C files)
    if api == "cythonize" and len(mods) >= 2 and len(others) >= 3 and rng.random() < 0.4:
        deep = sorted(f for f in others if f.endswith(".pxd"))[-1]
        vcounter[0] += 1
        k = rng.randrange(1, len(steps) + 1)
        first = {"co": 0, "api": api, "modules": list(mods), "opts": {}, "fresh_checkout": True}
        second = {"co": 0, "api": api, "modules": rng.sample(mods, len(mods)), "opts": {}, "fresh_checkout": True}
        steps[k:k] = [{"op": "invoke", "invs": [first]}, {"op": "edit", "co": "all", "file": deep, "v": vcounter[0]}, {"op": "invoke", "invs": [second]}]
    # fault plan: (invocation ordinal, seam ordinal within it, kind)
    faults = []
    if rng.random() < cfg["fault_run_rate"]:
        for _ in range(rng.choice([1, 1, 2])):
            kind = rng.choice(["kill", "kill", "enospc", "eio"])
            if rng.random() < 0.65:
                faults.append({"inv": rng.randrange(0, 7), "nth": rng.choice([0, 0, 0, 1]), "kind": kind,
                               "at": rng.choice(["copy-mid", "copy-mid", "rename", "rename", "gzip_open:w", "gzip_open:r", "open:w",
                                                 "zip_open:w", "zip_open:r", "utime", "unlink", "listdir", "stat"])})
            else:
                faults.append({"inv": rng.randrange(0, 8), "seam": rng.randrange(0, 14), "kind": kind})
    return {"ncheckouts": nco, "steps": steps, "faults": faults,
            "same_process": rng.random() < cfg["same_process_rate"]}


# --------------------------------------------------------------------------
# child side: seam installation and command loop

class ChildSeam:
    def __init__(self, sock):
        self.sock = sock
        self.rf = sock.makefile("r")
        self.now = 1.0e9

    def send(self, obj):
        self.sock.sendall((json.dumps(obj) + "\n").encode())

    def recv(self):
        line = self.rf.readline()
        if not line:
            os._exit(0)
        return json.loads(line)

    enabled = True

    def point(self, name, arg=""):
        if not self.enabled:
            return {}
        self.send({"seam": name, "arg": arg})
        act = self.recv()
        self.now = act.get("now", self.now)
        if act.get("act") == "raise":
            raise OSError(act["errno"], os.strerror(act["errno"]), arg)
        return act


def _base(p):
    return os.path.basename(str(p))


def install_seam(seam):
    from Cython.Build import Cache as C
    import gzip
    import zipfile as real_zipfile
    real_os, real_open, real_shutil = os, open, shutil

    class PathProxy:
        def __getattr__(self, n):
            return getattr(real_os.path, n)

        def exists(self, p):
            seam.point("exists", _base(p))
            return real_os.path.exists(p)

    class OsProxy:
        path = PathProxy()

        def __getattr__(self, n):
            return getattr(real_os, n)

        def rename(self, a, b):
            seam.point("rename", _base(b))
            return real_os.rename(a, b)

        def utime(self, p, times=None):
            seam.point("utime", _base(p))
            return real_os.utime(p, (seam.now, seam.now))

        def listdir(self, p):
            seam.point("listdir")
            return sorted(real_os.listdir(p))

        def stat(self, p):
            seam.point("stat", _base(p))
            st = real_os.stat(p)
            # Every stamp the simulation writes lies near 1e9 (simulated clock).  A larger atime was put there by the kernel
            # when the entry was read (wall-clock time, granularity of a scheduler tick): not simulated time, and it would
            # make the eviction order depend on real timing.  Serve the last simulated stamp instead.
            if st.st_atime > 1.5e9:
                class _St:
                    pass
                r = _St()
                for a in dir(st):
                    if a.startswith("st_"):
                        setattr(r, a, getattr(st, a))
                r.st_atime = st.st_mtime
                r.st_atime_ns = st.st_mtime_ns
                return r
            return st

        def unlink(self, p):
            seam.point("unlink", _base(p))
            return real_os.unlink(p)

    def seam_open(p, mode="r", *a, **k):
        seam.point("open:" + mode, _base(p))
        return real_open(p, mode, *a, **k)

    def seam_gzip_open(p, mode="rb", *a, **k):
        seam.point("gzip_open:" + mode, _base(p))
        if "w" in mode:
            return gzip.GzipFile(p, mode, mtime=0)
        return gzip.open(p, mode, *a, **k)

    class ShutilProxy:
        def __getattr__(self, n):
            return getattr(real_shutil, n)

        def copyfileobj(self, src, dst, length=0):
            data = src.read()
            h = len(data) // 2
            dst.write(data[:h])
            seam.point("copy-mid", str(len(data) > 0))
            dst.write(data[h:])

    class ZipProxy:
        def __getattr__(self, n):
            return getattr(real_zipfile, n)

        def ZipFile(self, p, mode="r", *a, **k):
            seam.point("zip_open:" + mode, _base(p))
            return real_zipfile.ZipFile(p, mode, *a, **k)

    class SubprocProxy:
        PIPE = -1

        def run(self, *a, **k):
            seam.point("du")

            class R:
                returncode = 1
                stdout = b""
            return R()

    C.os = OsProxy()
    C.open = seam_open
    C.gzip_open = seam_gzip_open
    C.shutil = ShutilProxy()
    C.zipfile = ZipProxy()
    C.subprocess = SubprocProxy()
    C.safe_makedirs = lambda p: real_os.makedirs(p, exist_ok=True)


def split_opts(opts):
    kw, directives = {}, {}
    for k, v in opts.items():
        kind, key = k.split(":", 1)
        if kind == "directive":
            directives[key] = v
        else:
            kw[key] = v
    if directives:
        kw["compiler_directives"] = directives
    return kw


def run_invocation(spec, cache_dir):
    """Executed in a child, cwd = checkout.  Returns result dict."""
    from Cython.Compiler import Main, Options, Errors
    kw = split_opts(spec["opts"])
    res = {"ok": False, "exc": None, "num_errors": None}
    from Cython.Build import Cache as C
    # tuning knob randomised per invocation: eviction threshold (default 100 MB never evicts in a test)
    C.MAX_CACHE_SIZE = spec.get("cache_size", 1024 * 1024 * 100)
    try:
        if spec["api"] == "cythonize":
            from Cython.Build.Dependencies import cythonize
            if cache_dir is None:
                kw["force"] = True
            else:
                kw["cache"] = cache_dir
            mods = list(spec["modules"])
            if spec.get("ext"):
                from distutils.extension import Extension
                mods = [Extension(os.path.splitext(m)[0].replace("/", "."), [m],
                                  **{k: ([tuple(x) for x in v] if k == "define_macros" else v) for k, v in spec["ext"][m].items()})
                        if spec["ext"].get(m) else m for m in mods]
            cythonize(mods, quiet=True, **kw)
            res["ok"] = True
        else:
            if cache_dir is not None:
                kw["cache"] = cache_dir
            o = Options.CompilationOptions(Options.default_options, **kw)
            r = Main.compile(spec["modules"][0], o)
            res["num_errors"] = r.num_errors
            res["ok"] = r.num_errors == 0
    except BaseException as e:
        if isinstance(e, (SystemExit, KeyboardInterrupt)):
            raise
        res["exc"] = type(e).__name__
        res["exc_msg"] = str(e)[:200]
    return res


def child_reset():
    from Cython import Utils
    from Cython.Build import Dependencies
    Utils.clear_function_caches()
    Dependencies._dep_tree = None


def child_main(sock):
    """Persistent compile server: one simulated process per command (caches
    are dropped between commands unless the command says the process lives on)."""
    try:
        keep = sock.fileno()
        for fd in range(3, 256):
            if fd != keep:
                try:
                    os.close(fd)
                except OSError:
                    pass
        devnull = os.open(os.devnull, os.O_WRONLY)
        os.dup2(devnull, 1)
        os.dup2(devnull, 2)
        signal.setitimer(signal.ITIMER_REAL, 0)
        signal.signal(signal.SIGALRM, signal.SIG_DFL)
        seam = ChildSeam(sock)
        install_seam(seam)
        while True:
            cmd = seam.recv()
            if cmd.get("cmd") == "exit":
                break
            if cmd.get("cmd") == "invoke":
                os.chdir(cmd["cwd"])
                if cmd.get("reset", True):
                    child_reset()
                seam.enabled = bool(cmd.get("use_seam", True))
                res = run_invocation(cmd["spec"], cmd.get("cache_dir"))
                seam.enabled = False
                seam.send({"done": res})
    except BaseException:
        try:
            sock.sendall((json.dumps({"done": {"ok": False, "exc": "ChildHarnessError",
                                               "exc_msg": traceback.format_exc()[-600:]}}) + "\n").encode())
        except Exception:
            pass
    finally:
        os._exit(0)


# --------------------------------------------------------------------------
# parent side

_pool = {}


def pool_get(role, fresh=False):
    """Worker-level persistent compile servers (fork is expensive here)."""
    p = _pool.get(role)
    if p is not None and p.owner != os.getpid():
        p = None
    if p is not None and (fresh or not p.alive):
        p.kill()
        p = None
    if p is None:
        p = _pool[role] = Proc()
    return p


class Proc:
    def __init__(self):
        self.owner = os.getpid()
        a, b = socket.socketpair()
        pid = os.fork()
        if pid == 0:
            a.close()
            child_main(b)
            os._exit(0)
        b.close()
        self.pid, self.sock = pid, a
        self.rf = a.makefile("r")
        self.alive = True

    def send(self, obj):
        try:
            self.sock.sendall((json.dumps(obj) + "\n").encode())
        except OSError:
            pass

    def recv(self, timeout=60):
        self.sock.settimeout(timeout)
        try:
            line = self.rf.readline()
        except (socket.timeout, OSError):
            return {"lost": "timeout"}
        if not line:
            return {"lost": "eof"}
        return json.loads(line)

    def kill(self):
        if self.alive:
            try:
                os.kill(self.pid, signal.SIGKILL)
            except OSError:
                pass
            try:
                os.waitpid(self.pid, 0)
            except OSError:
                pass
            self.alive = False
            try:
                self.sock.close()
            except OSError:
                pass

    def close(self):
        if self.alive:
            self.send({"cmd": "exit"})
            try:
                os.waitpid(self.pid, 0)
            except OSError:
                pass
            self.alive = False
            try:
                self.sock.close()
            except OSError:
                pass


def sha(path):
    with open(path, "rb") as f:
        return hashlib.sha256(f.read()).hexdigest()[:20]


OUT_EXT = (".c", ".cpp", ".h", ".pxi_out")


def outputs(d):
    out = {}
    for n in sorted(os.listdir(d)):
        if n.endswith((".c", ".cpp", ".h")) or (n.endswith(".pxi") and n.startswith("m")):
            out[n] = sha(os.path.join(d, n))
    return out


def write_tree(d, files, stamp=1.0e9):
    os.makedirs(d, exist_ok=True)
    for name, st in files.items():
        p = os.path.join(d, name)
        with open(p, "w") as f:
            f.write(render(name, st))
        os.utime(p, (stamp, stamp))


_ref_memo = {}


def reference(rundir, files, spec):
    """Fresh uncached compilation of the same inputs/options in a clean process."""
    texts = {n: render(n, st) for n, st in files.items()}
    key = core.digest({"t": texts, "api": spec["api"], "m": spec["modules"], "o": spec["opts"], "e": spec.get("ext")})
    r = _ref_memo.get(key)
    if r is not None:
        return r
    d = os.path.join(rundir, "ref-" + key[:16])
    if os.path.isdir(d):
        shutil.rmtree(d)
    write_tree(d, files)
    p = pool_get("ref")
    p.send({"cmd": "invoke", "spec": spec, "cache_dir": None, "cwd": d, "reset": True, "use_seam": False})
    msg = p.recv(120)
    if "done" not in msg:
        p.kill()
    if "done" not in msg:
        raise core.HarnessError("reference compile lost: %r" % (msg,))
    res = msg["done"]
    if res.get("exc") == "ChildHarnessError":
        raise core.HarnessError("reference child: " + res.get("exc_msg", ""))
    res["outputs"] = outputs(d)
    shutil.rmtree(d, ignore_errors=True)
    if len(_ref_memo) > 256:
        _ref_memo.clear()
    _ref_memo[key] = res
    return res


def simulate(case, rundir, rng_sched):
    """Run one history.  Returns (log, violations, stats)."""
    files0 = case["files"]
    hist = case["history"]
    nco = hist["ncheckouts"]
    cache_dir = os.path.join(rundir, "cache")
    os.makedirs(cache_dir, exist_ok=True)
    cos = []
    state = []      # per checkout: {name: st}
    orig = json.loads(json.dumps(files0))
    for c in range(nco):
        d = os.path.join(rundir, "co%d" % c)
        write_tree(d, files0)
        cos.append(d)
        state.append(json.loads(json.dumps(files0)))
    log, viol = [], []
    stats = {"faults": {}, "probes": {}}
    fp_alias = {}
    now = [1.0e9]
    inv_ord = [0]
    faults = {(f["inv"], f["seam"]): f["kind"] for f in hist["faults"] if "seam" in f}
    named = [dict(f) for f in hist["faults"] if "at" in f]
    last_fault_step = [-1]

    def probe(k, n=1):
        stats["probes"][k] = stats["probes"].get(k, 0) + n

    def alias(arg):
        # cache entry names contain fingerprints: replace by order-of-appearance alias
        import re
        arg = re.sub(r"\.tmp\d+$", ".tmp", arg)      # per-process temporary names carry a pid
        if "-" in arg and len(arg) > 40:
            head, _, tail = arg.partition("-")
            fp = tail[:64]
            a = fp_alias.setdefault(fp, "fp%d" % len(fp_alias))
            return head + "-" + a + tail[64:]
        return arg

    live = [False] * nco     # simulated process of checkout c still holds its in-process caches
    busy = []

    def start(c, spec, use_cache_dir):
        p = pool_get("co%d" % c, fresh=case.get("fresh_fork", False))
        reset = not (hist["same_process"] and live[c])
        if not reset:
            probe("same_process_reuse")
        live[c] = True
        p.send({"cmd": "invoke", "spec": spec, "cache_dir": use_cache_dir, "cwd": cos[c], "reset": reset, "use_seam": True})
        busy.append(p)
        return p

    def check_result(step_i, spec, res, before, faulted, overlapped):
        c = spec["co"]
        after = outputs(cos[c])
        ref = reference(rundir, state[c], {"api": spec["api"], "modules": spec["modules"], "opts": spec["opts"], "ext": spec.get("ext")})
        written = {n: h for n, h in after.items() if before.get(n) != h}
        now[0] += 1
        for n in written:       # simulated clock: outputs carry the simulated time of this build
            os.utime(os.path.join(cos[c], n), (now[0], now[0]))
        entry = {"step": step_i, "co": c, "ok": res.get("ok"), "exc": res.get("exc"), "ref_ok": ref["ok"],
                 "written": sorted(written), "faulted": faulted}
        log.append(("result", entry))
        v = None
        if res.get("exc") == "ChildHarnessError":
            raise core.HarnessError("child: " + res.get("exc_msg", ""))
        if res.get("ok"):
            if not ref["ok"]:
                # without a fresh checkout cythonize may legitimately do nothing (C files up to date by mtime)
                if spec["fresh_checkout"]:
                    v = ("success-on-failing-input", "invocation reported success but a fresh compilation of the same inputs fails")
            else:
                for n, h in ref["outputs"].items():
                    if n in before and before[n] == after.get(n) and not spec["fresh_checkout"]:
                        continue    # not rebuilt by timestamp rule: C46's business
                    if n not in after:
                        mods = [m[:-4] for m in spec["modules"]]
                        if spec["fresh_checkout"] and n.rsplit(".", 1)[0] in mods:
                            v = ("success-without-output", "reported success but %s was not produced" % n)
                            break
                    elif after[n] != h and (n in written or n not in before):
                        v = ("stale-or-wrong-output", "%s differs from a fresh uncached compilation" % n)
                        break
        else:
            if ref["ok"] and not faulted:
                if overlapped:
                    probe("unfaulted_failure_under_overlap:%s" % res.get("exc"))
                else:
                    v = ("fails-without-fault", "invocation failed (%s: %s) but fresh compilation succeeds and no fault was injected"
                         % (res.get("exc"), res.get("exc_msg", "")))
        if v:
            viol.append({"klass": v[0], "detail": v[1], "step": step_i, "spec": spec})
        return ref

    try:
        for step_i, st in enumerate(hist["steps"]):
            op = st["op"]
            if op == "edit" or op == "revert":
                targets = range(nco) if st["co"] == "all" else [st["co"]]
                for c in targets:
                    if c >= nco or st["file"] not in state[c]:
                        continue
                    if op == "edit":
                        state[c][st["file"]]["v"] = st["v"]
                    else:
                        state[c][st["file"]]["v"] = orig[st["file"]]["v"]
                    p = os.path.join(cos[c], st["file"])
                    with open(p, "w") as f:
                        f.write(render(st["file"], state[c][st["file"]]))
                    now[0] += 5
                    os.utime(p, (now[0], now[0]))
                log.append(("edit", st))
                probe("edits")
            elif op == "setopt":
                log.append(("setopt", st))
            elif op == "setext":
                log.append(("setext", st))
                probe("extension_setting_changes")
            elif op == "restart":
                c = st["co"]
                if c < nco and live[c]:
                    live[c] = False
                    probe("restarts")
                log.append(("restart", st["co"]))
            elif op == "invoke":
                invs = [iv for iv in st["invs"] if iv["co"] < nco]
                active = []
                for iv in invs:
                    c = iv["co"]
                    if iv["fresh_checkout"]:
                        for n in list(outputs(cos[c])):
                            os.unlink(os.path.join(cos[c], n))
                    before = outputs(cos[c])
                    p = start(c, iv, cache_dir)
                    active.append({"p": p, "spec": iv, "before": before, "msg": None, "ord": inv_ord[0],
                                   "seam_n": 0, "faulted": False})
                    inv_ord[0] += 1
                overlapped = len(active) > 1
                if overlapped:
                    probe("overlapping_invocations")
                # every child runs until its first seam point (sequentially: deterministic)
                for a in active:
                    a["msg"] = a["p"].recv()
                while active:
                    a = active[rng_sched.randrange(len(active))] if len(active) > 1 else active[0]
                    msg = a["msg"]
                    if "done" in msg or "lost" in msg:
                        active.remove(a)
                        if a["p"] in busy:
                            busy.remove(a["p"])
                        res = msg.get("done") or {"ok": False, "exc": "ProcessLost:" + str(msg.get("lost"))}
                        if "lost" in msg:
                            a["p"].kill()
                            if not a["faulted"]:
                                raise core.HarnessError("child lost without fault: %r" % (msg,))
                        check_result(step_i, a["spec"], res, a["before"], a["faulted"], overlapped)
                        continue
                    now[0] += 1
                    kind = faults.get((a["ord"], a["seam_n"]))
                    for f in named:
                        if f["inv"] == a["ord"] and msg["seam"].startswith(f["at"]) and not f.get("used"):
                            if f.get("nth", 0) == 0:
                                kind, f["used"] = f["kind"], True
                            else:
                                f["nth"] -= 1
                    a["seam_n"] += 1
                    stats["sim_steps"] = stats.get("sim_steps", 0) + 1
                    log.append(("seam", a["spec"]["co"], msg["seam"], alias(msg.get("arg", "")), kind))
                    if msg["seam"] == "exists" and "-" in msg.get("arg", ""):
                        probe("cache_lookups")
                    if msg["seam"].startswith("gzip_open:r") or msg["seam"].startswith("zip_open:r"):
                        probe("cache_hits_loaded")
                    if msg["seam"].startswith("zip_open"):
                        probe("zip_multi_artifact_path")
                    if msg["seam"] == "unlink":
                        probe("evictions")
                    if kind == "kill":
                        a["p"].kill()
                        a["faulted"] = True
                        stats["faults"]["kill@" + msg["seam"].split(":")[0]] = stats["faults"].get("kill@" + msg["seam"].split(":")[0], 0) + 1
                        last_fault_step[0] = step_i
                        active.remove(a)
                        live[a["spec"]["co"]] = False
                        if a["p"] in busy:
                            busy.remove(a["p"])
                        log.append(("killed", a["spec"]["co"]))
                        # a killed invocation reports nothing; its checkout's outputs are discarded (fresh checkout next time)
                        for n in list(outputs(cos[a["spec"]["co"]])):
                            os.unlink(os.path.join(cos[a["spec"]["co"]], n))
                        continue
                    if kind in ("enospc", "eio"):
                        a["faulted"] = True
                        k = kind + "@" + msg["seam"].split(":")[0]
                        stats["faults"][k] = stats["faults"].get(k, 0) + 1
                        last_fault_step[0] = step_i
                        a["p"].send({"act": "raise", "errno": errno.ENOSPC if kind == "enospc" else errno.EIO, "now": now[0]})
                    else:
                        a["p"].send({"act": "go", "now": now[0]})
                    a["msg"] = a["p"].recv()
        # liveness / no-poison check: after the last fault, a fresh checkout of every tree builds correctly
        if hist["faults"] and last_fault_step[0] >= 0:
            for c in range(nco):
                mods = sorted(f for f in state[c] if f.endswith(".pyx"))
                api = "cythonize"
                spec = {"co": c, "api": api, "modules": mods, "opts": {}, "fresh_checkout": True}
                for n in list(outputs(cos[c])):
                    os.unlink(os.path.join(cos[c], n))
                live[c] = False
                p = start(c, spec, cache_dir)
                while True:
                    msg = p.recv()
                    if "done" in msg or "lost" in msg:
                        break
                    now[0] += 1
                    p.send({"act": "go", "now": now[0]})
                if "lost" in msg:
                    raise core.HarnessError("liveness child lost")
                busy.remove(p)
                nv = len(viol)
                check_result(len(hist["steps"]), spec, msg["done"], {}, False, False)
                probe("post_fault_liveness_checks")
                for v in viol[nv:]:
                    v["klass"] = "after-faults:" + v["klass"]
    finally:
        for p in busy:      # only on harness failure: a server stuck mid-invocation is discarded
            p.kill()
    return log, viol, stats


def one_run(check, seed, i, cfg, case=None, keep=False):
    rng = core.rng_for(check, seed, i)
    if case is None:
        files = gen_project(rng)
        hist = gen_history(rng, files, cfg)
        case = {"files": files, "history": hist, "sched_seed": rng.randrange(1 << 30)}
    import random
    rng_sched = random.Random(case["sched_seed"])
    rundir = os.path.join(core.workdir(), "e1", "r%d-%d-%d" % (os.getpid(), seed, i))
    if os.path.isdir(rundir):
        shutil.rmtree(rundir)
    os.makedirs(rundir)
    try:
        log, viol, stats = simulate(case, rundir, rng_sched)
    finally:
        if not keep:
            shutil.rmtree(rundir, ignore_errors=True)
    res = {"faults": stats["faults"], "probes": stats["probes"], "steps": stats.get("sim_steps", 0)}
    res["digest"] = core.digest(log)
    nontriv = stats["probes"].get("cache_hits_loaded", 0) > 0 and stats["probes"].get("edits", 0) > 0 or bool(stats["faults"])
    res["nontrivial"] = bool(nontriv)
    if viol:
        res["violation"] = dict(viol[0], case=case, n_violations=len(viol))
    if i % 211 == 0:
        res["sample"] = {"case": case, "log_tail": log[-12:]}
    return res


def warm():
    """Import the staged compiler and compile once so forked children are warm."""
    core.use_stage()
    import tempfile
    from Cython.Build.Dependencies import cythonize
    from Cython.Compiler import Main
    d = tempfile.mkdtemp(prefix="warm-", dir=core.workdir())
    cwd = os.getcwd()
    try:
        os.chdir(d)
        with open("w.pyx", "w") as f:
            f.write("def f(int a):\n    return a // 2\n")
        out = os.dup(1)
        devnull = os.open(os.devnull, os.O_WRONLY)
        os.dup2(devnull, 1)
        try:
            cythonize(["w.pyx"], quiet=True, force=True)
        finally:
            os.dup2(out, 1)
            os.close(out)
            os.close(devnull)
    finally:
        os.chdir(cwd)
        shutil.rmtree(d, ignore_errors=True)


# --------------------------------------------------------------------------
# minimisation and replay

def _fails(case, klass, seed=0):
    try:
        r = one_run(PROP, seed, 0, None, case=case)
    except Exception:
        return False
    return "violation" in r and r["violation"]["klass"] == klass


def minimise(v):
    case, klass = v["case"], v["klass"]
    deadline = time.time() + 60
    hist = case["history"]

    def with_steps(steps, faults=None):
        h = dict(hist, steps=steps, faults=hist["faults"] if faults is None else faults)
        return dict(case, history=h)
    steps = list(hist["steps"])
    faults = list(hist["faults"])
    if faults and _fails(with_steps(steps, []), klass):
        faults = []

    def t(ss):
        if time.time() > deadline:
            return False
        return _fails(with_steps(ss, faults), klass)
    steps = core.ddmin(steps, t, max_tests=60)
    case2 = with_steps(steps, faults)
    # fewer checkouts / simpler invocations
    for iv_step in steps:
        if iv_step["op"] == "invoke" and len(iv_step["invs"]) > 1 and time.time() < deadline:
            for k in range(len(iv_step["invs"])):
                alt = [dict(s) for s in steps]
                j = steps.index(iv_step)
                alt[j] = dict(iv_step, invs=[iv_step["invs"][k]])
                if _fails(with_steps(alt, faults), klass):
                    steps = alt
                    case2 = with_steps(steps, faults)
                    break
    r = one_run(PROP, 0, 0, None, case=case2)
    if "violation" in r and r["violation"]["klass"] == klass:
        return dict(r["violation"], case=dict(case2, minimised=True))
    return v


def replay(payload, warmed=False):
    if payload.get("engine_part") == "inline":
        from . import e1_inline
        return e1_inline.replay(payload)
    if not warmed:
        warm()
    r = one_run(PROP, 0, 0, None, case=payload["case"])
    v = r.get("violation")
    print("replayed: %s" % (json.dumps({k: v[k] for k in ("klass", "detail", "step")}) if v else "no violation"))
    return bool(v) and v["klass"] == payload.get("klass")


def check(tier):
    seed = core.env_seed()
    warm()
    rep = core.Report(PROP, ENGINE, tier, seed)
    rep.rule = ("generated projects (1-3 .pyx modules, optional cimported .pxd chain and included .pxi) x seeded histories of "
                "invoke (cythonize or Main.compile with cache=<shared dir>, 1-3 checkouts, 0-2 overlapping), edit/revert of source or dependency, "
                "option/directive change, syntax error, process restart, tiny cache_size; scheduler grants one Cache.py I/O call at a time and may "
                "SIGKILL the child or raise ENOSPC/EIO there. non-trivial = a cache entry was loaded after an edit, or a fault fired; distinct = event-log digest")
    rep.components = {"real": ["Cython/Build/Cache.py", "Cython/Build/Dependencies.py cythonize/cythonize_one", "Cython/Compiler/Main.py compile/run_cached_pipeline",
                               "Cython/Compiler/Options.py get_fingerprint", "the whole compiler", "real files, real fork/SIGKILL"],
                      "stub": ["scheduler grants", "clock served to os.utime", "du subprocess (always fails over to the listdir path)", "gzip header mtime fixed to 0"]}
    rep.assumptions = ["process-crash semantics (page cache survives), not power loss: Cache.py does no fsync and promises none",
                       "kills happen only at Cache.py seam points; a kill while the compiler writes the C file is C46's business",
                       "an unfaulted invocation that fails only while overlapping another one is counted (probe), not alarmed: the statement is about stale results"]
    budget = core.env_budget(60 if tier == "quick" else 900)
    deadline = time.time() + budget
    cfg = {"maxsteps": 7 if tier == "quick" else 10, "fault_run_rate": 0.45, "same_process_rate": 0.0, "case_timeout_s": 120}
    n = 900 if tier == "quick" else 10 ** 8
    batch = 300 if tier == "quick" else 2000
    start, viol = 0, []
    while start < n and time.time() < deadline - 10:
        results = core.run_batch(one_run, PROP, seed, range(start, min(n, start + batch)), cfg, chunk=4, deadline=deadline)
        for i, r in results:
            if "harness_error" in r:
                rep.harness_errors.append(r["harness_error"])
                continue
            rep.absorb(r)
            if "violation" in r:
                viol.append((i, r["violation"]))
        start += batch
        if viol:
            break
    # second clause of the statement: cython.inline's module cache (E1b)
    from . import e1_inline
    ibudget = 45 if tier == "quick" else budget * 0.4
    ideadline = time.time() + ibudget
    icfg = {"maxlen": 6 if tier == "quick" else 9, "fault_rate": 0.4, "case_timeout_s": 600}
    istart, ibatch, iviol = 0, 64, []
    while time.time() < ideadline - 15 and not iviol and istart < (10 ** 6 if tier != "quick" else 256):
        results = core.run_batch(e1_inline.one_run, PROP, seed, range(istart, istart + ibatch), icfg, chunk=1, deadline=ideadline)
        for i, r in results:
            if "harness_error" in r:
                if r.get("timeout") or "deadline" in str(r["harness_error"]):
                    rep.probes["inline_runs_cut_by_budget"] = rep.probes.get("inline_runs_cut_by_budget", 0) + 1
                else:
                    rep.harness_errors.append(r["harness_error"])
                continue
            rep.absorb(r)
            if "violation" in r:
                iviol.append((i, r["violation"]))
        istart += ibatch
    for i, v in iviol[:1]:
        v = e1_inline.minimise(v)
        rep.violation("%s: %s (inline run %s)" % (v["klass"], json.dumps(v["detail"]), i), dict(v, seed=seed, run_index=i))
    core.replay_known(PROP, lambda p: (e1_inline.replay(p) if p.get("engine_part") == "inline" else replay(p, warmed=True)), rep)
    chk = [0, 1, 2, 3, 4, 5, 6, 7]
    a = dict(core.run_batch(one_run, PROP, seed, chk, cfg, jobs=2, chunk=4))
    b = dict(core.run_batch(one_run, PROP, seed, chk, cfg, jobs=4, chunk=1))
    mism = sum(a[k].get("digest") != b[k].get("digest") for k in chk)
    rep.determinism = {"seeds": len(chk), "mismatches": mism}
    if mism:
        rep.harness_errors.append("determinism self-check failed (%d of %d)" % (mism, len(chk)))
    seen = set()
    for i, v in viol:
        if v["klass"] in seen:
            continue
        seen.add(v["klass"])
        v = minimise(v)
        rep.violation("%s: %s (run %s)" % (v["klass"], v["detail"], i), dict(v, seed=seed, run_index=i))
    rep.extra["simulated_time_s"] = "1 simulated second per granted seam step, 5 per edit; total = sim_steps (order only matters: atime ordering for eviction)"
    return rep.finish()
