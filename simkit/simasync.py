"""Seam library + virtual-time event loop for the asyncio sub-engine of E3 (C23).

Imported by workload modules both when compiled by Cython (system under test)
and when exec'd by CPython (the model).  The only clock the workload and
asyncio itself ever see is the loop's virtual time: VirtualLoop.time() returns
a counter that jumps to the next timer whenever nothing is runnable, so
second-long sleeps and timeouts cost microseconds and every run is exactly
repeatable.  Nothing here draws random numbers."""
import asyncio
import selectors
import sys

LOG = []
PLAN = {}
COUNT = [0]
LOOP = [None]


class E1(Exception):
    pass


class E2(Exception):
    pass


def now():
    lp = LOOP[0]
    return round(lp.time(), 3) if lp is not None else -1.0


def reset(plan, loop):
    del LOG[:]
    PLAN.clear()
    PLAN.update(plan or {})
    COUNT[0] = 0
    LOOP[0] = loop


def AP(k):
    """Probe: logs (virtual time, k); the plan may make this occurrence raise or cancel the current task."""
    n = COUNT[0]
    COUNT[0] = n + 1
    LOG.append(("P", now(), k))
    act = PLAN.get(n)
    if act is None:
        return None
    if act[0] == "raise":
        LOG.append(("inject", n, act[1]))
        raise {"E1": E1, "E2": E2, "KeyError": KeyError, "Cancelled": asyncio.CancelledError}[act[1]](n)
    if act[0] == "selfcancel":
        t = asyncio.current_task()
        if t is not None:
            LOG.append(("selfcancel", n))
            t.cancel()
    return None


def AX(k):
    """Log the exception currently being handled (type only for builtins, args for user exceptions)."""
    e = sys.exc_info()[1]
    LOG.append(("X", now(), k, describe(e)))


def describe(e):
    if e is None:
        return None
    if isinstance(e, (E1, E2)):
        return (type(e).__name__, norm(e.args))
    return (type(e).__name__,)


def norm(v):
    if isinstance(v, (int, str, float, bool, type(None))):
        return v
    if isinstance(v, (tuple, list)):
        return [norm(x) for x in v]
    if isinstance(v, BaseException):
        return ["exc"] + list(describe(v))
    return "<%s>" % type(v).__name__


class ACM:
    """Async context manager implemented in Python (the seam side): sleeps in __aenter__/__aexit__, may suppress."""

    def __init__(self, tag, d, suppress=False):
        self.tag, self.d, self.suppress = tag, d, suppress

    async def __aenter__(self):
        LOG.append(("acm.enter", now(), self.tag))
        await asyncio.sleep(self.d)
        return self.tag

    async def __aexit__(self, t, v, tb):
        LOG.append(("acm.exit", now(), self.tag, t.__name__ if t else None))
        await asyncio.sleep(self.d)
        return self.suppress


class _NullSelector(selectors.BaseSelector):
    """Never blocks; 'waiting' for timeout seconds advances the loop's virtual clock instead."""

    def __init__(self, loop_ref):
        self._loop_ref = loop_ref
        self._map = {}

    def register(self, fileobj, events, data=None):
        key = selectors.SelectorKey(fileobj, fileobj if isinstance(fileobj, int) else fileobj.fileno(), events, data)
        self._map[fileobj] = key
        return key

    def unregister(self, fileobj):
        return self._map.pop(fileobj)

    def modify(self, fileobj, events, data=None):
        self._map.pop(fileobj, None)
        return self.register(fileobj, events, data)

    def select(self, timeout=None):
        lp = self._loop_ref[0]
        if timeout is None:
            # nothing scheduled at all: a deadlock in simulated time; jump far ahead so that watchdog timers fire
            lp._vt += 1000.0
        elif timeout > 0:
            # jump exactly onto the earliest timer (no floating-point drift from adding differences)
            sched = getattr(lp, "_scheduled", None)
            lp._vt = max(lp._vt, sched[0]._when) if sched else lp._vt + timeout
        return []

    def get_map(self):
        return self._map

    def close(self):
        self._map.clear()


class VirtualLoop(asyncio.SelectorEventLoop):
    def __init__(self):
        self._vt = 0.0
        ref = [None]
        super().__init__(selector=_NullSelector(ref))
        ref[0] = self
        self.steps = 0

    def time(self):
        return self._vt

    def _run_once(self):
        self.steps += 1
        if self.steps > 20000:
            raise RuntimeError("virtual loop step budget exhausted")
        super()._run_once()
