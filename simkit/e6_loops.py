"""E6 loop-hook — C14 (SIM-part).  Compiled for-loops whose body calls a hook;
the hook is the simulator's actor: per the run's script it mutates the
container being iterated, or answers break / continue / raise.  Model: the
same source under CPython with the same script.
"""
import json
import os
import sys
import time

from . import core, build

PROP = "C14"
ENGINE = "E6-loop-hook"
SEAMDIR = os.path.dirname(os.path.abspath(__file__))

BODY = '''
        r = hook(%(site)d, %(item)s)
        if r == 1: break
        if r == 2: continue
        hook(%(site2)d, %(item)s)
    else:
        hook(%(site3)d, None)
'''

LOOPS = [
    # name, params, header, item expr, unset targets
    ("dict", "d", "for i in d:", "i", "i"),
    ("dict_typed", "d: dict", "for i in d:", "i", "i"),
    ("dict_keys", "d: dict", "for i in d.keys():", "i", "i"),
    ("dict_values", "d: dict", "for i in d.values():", "i", "i"),
    ("dict_items", "d: dict", "for k, v in d.items():", "(k, v)", "k, v"),
    ("dict_items_untyped", "d", "for k, v in d.items():", "(k, v)", "k, v"),
    ("set", "s", "for i in s:", "i", "i"),
    ("set_typed", "s: set", "for i in s:", "i", "i"),
    ("frozenset_typed", "s: frozenset", "for i in s:", "i", "i"),
    ("list", "l", "for i in l:", "i", "i"),
    ("list_typed", "l: list", "for i in l:", "i", "i"),
    ("tuple_typed", "l: tuple", "for i in l:", "i", "i"),
    ("str_typed", "l: str", "for i in l:", "i", "i"),
    ("bytes_typed", "l: bytes", "for i in l:", "i", "i"),
    ("bytearray_typed", "l: bytearray", "for i in l:", "i", "i"),
    ("bytearray_reversed_typed", "l: bytearray", "for i in reversed(l):", "i", "i"),
    ("bytearray_reversed_untyped", "l", "for i in reversed(l):", "i", "i"),
    ("enumerate", "l", "for n, x in enumerate(l):", "(n, x)", "n, x"),
    ("enumerate_start", "l: list", "for n, x in enumerate(l, 5):", "(n, x)", "n, x"),
    ("reversed_list", "l: list", "for i in reversed(l):", "i", "i"),
    ("reversed_untyped", "l", "for i in reversed(l):", "i", "i"),
    ("range3", "a, b, c", "for i in range(a, b, c):", "i", "i"),
    ("range2", "a, b", "for i in range(a, b):", "i", "i"),
    ("range1", "a", "for i in range(a):", "i", "i"),
    ("range_typed", "a: cython.int, b: cython.int", "for i in range(a, b):", "i", "i"),
    ("range_typed_step2", "a: cython.int, b: cython.int", "for i in range(a, b, 2):", "i", "i"),
    ("range_typed_neg", "a: cython.int, b: cython.int", "for i in range(a, b, -1):", "i", "i"),
    ("range_typed_neg3", "a: cython.int, b: cython.int", "for i in range(a, b, -3):", "i", "i"),
    ("range_typed_var", "a: cython.int, b: cython.int, c: cython.int", "for i in range(a, b, c):", "i", "i"),
    ("range_ctarget", "a: cython.int, b: cython.int", "for j in range(a, b):", "j", "j"),
    ("reversed_range", "a: cython.int, b: cython.int", "for i in reversed(range(a, b)):", "i", "i"),
    ("reversed_range3", "a, b", "for i in reversed(range(a, b, 3)):", "i", "i"),
    # bounds of different widths / kinds: the untyped target must be wide enough for every value between them
    ("range_mix_uchar_int", "a: cython.uchar, b: cython.int", "for i in range(a, b):", "i", "i"),
    ("range_mix_short_long", "a: cython.short, b: cython.long", "for i in range(a, b):", "i", "i"),
    ("range_mix_int_obj", "a: cython.int, b", "for i in range(a, b):", "i", "i"),
    ("range_mix_lit_obj", "b", "for i in range(1, b):", "i", "i"),
    ("range_mix_schar_int_step", "a: cython.schar, b: cython.int", "for i in range(a, b, 3):", "i", "i"),
    ("range_mix_int_uchar_neg", "a: cython.int, b: cython.uchar", "for i in range(a, b, -1):", "i", "i"),
    ("dict_rebind", "d: dict", "for i in d:", "i", "i"),
    ("list_rebind", "l: list", "for i in l:", "i", "i"),
]


NESTED = [
    # name, params, outer header, inner header, item
    ("nest_range_range", "a, b", "for i in range(a):", "for j in range(b):", "(i, j)"),
    ("nest_range_typed", "a: cython.int, b: cython.int", "for i in range(a):", "for j in range(b):", "(i, j)"),
    ("nest_list_str", "l: list, t: str", "for i in l:", "for j in t:", "(i, j)"),
    ("nest_range_bytes", "a: cython.int, t: bytes", "for i in range(a):", "for j in t:", "(i, j)"),
    ("nest_dict_range", "d: dict, b: cython.int", "for i in d:", "for j in range(b):", "(i, j)"),
    ("nest_range_list", "a, l: list", "for i in range(a):", "for j in l:", "(i, j)"),
]

NESTED_BODY = '''
    i = j = 'unset'
    %(outer)s
        %(inner)s
            r = hook(%(site)d, %(item)s)
            if r == 1: break
            if r == 2: continue
            hook(%(site2)d, %(item)s)
        else:
            r = hook(%(site)d, ('inner-else', i))
            if r == 1: break
            if r == 2: continue
            hook(%(site2)d, ('after-else', i))
        hook(%(site2)d, ('outer-tail', i))
    else:
        hook(%(site3)d, None)
    return (i, j)
'''


def gen_source():
    out = ["import cython", "from loopseam import hook, rebind", ""]
    for n, (name, params, outer, inner, item) in enumerate(NESTED):
        out.append("def loop_%s(%s):" % (name, params))
        out.append((NESTED_BODY % {"outer": outer, "inner": inner, "item": item, "site": 60 + n, "site2": 160 + n, "site3": 260 + n}).strip("\n"))
        out.append("")
    for n, (name, params, header, item, unset) in enumerate(LOOPS):
        out.append("def loop_%s(%s):" % (name, params))
        if name == "range_ctarget":
            out.append("    j: cython.int = -99")
        elif name.startswith("range_mix"):
            # the target is only ever bound by the loop, so its C type is inferred from the bounds; it is read after the
            # loop only if the loop ran (an unbound C-typed local holds garbage by design, which is not this property)
            out.append("    n = 0")
            out.append("    last = 'unset'")
        else:
            for t in unset.split(", "):
                out.append("    %s = 'unset'" % t)
        out.append("    " + header)
        body = BODY % {"site": n, "site2": 100 + n, "site3": 200 + n, "item": item}
        if name.endswith("_rebind"):
            var = params.split(":")[0]
            body = body.replace("        r = hook(", "        %s = rebind(%s, %s)\n        r = hook(" % (var, var, "{}" if var == "d" else "[]"), 1)
        if name.startswith("range_mix"):
            body = body.replace("        r = hook(", "        n += 1\n        last = i\n        r = hook(", 1)
        out.append(body.strip("\n"))
        if name.startswith("range_mix"):
            out.append("    return (last, i if n else None)")
        else:
            out.append("    return (%s)" % (unset if ", " not in unset else unset))
        out.append("")
    return "\n".join(out) + "\n"


SRC = gen_source()

DICT_MUT = ["insert", "burst", "del_first", "del_last", "replace_value", "clear", "same_size", "del_and_reinsert"]
SET_MUT = ["insert", "burst", "del_first", "del_last", "clear", "same_size"]
LIST_MUT = ["insert", "burst", "del_first", "del_last", "replace_value", "clear", "insert_front"]
BA_MUT = ["insert", "del_last", "clear", "del_tail", "burst"]


def gen_nested_case(rng):
    ni = rng.randrange(len(NESTED))
    name = NESTED[ni][0]
    a, b = rng.choice([0, 1, 2, 3]), rng.choice([0, 1, 2, 3])
    if name in ("nest_range_range", "nest_range_typed"):
        arg = ["ints", [a, b]]
    elif name == "nest_list_str":
        arg = ["list+str", [list(range(10, 10 + a)), "xyz"[:b]]]
    elif name == "nest_range_bytes":
        arg = ["int+bytes", [a, "xyz"[:b]]]
    elif name == "nest_dict_range":
        arg = ["dict+int", [[[k * 3 + 1, k] for k in range(a)], b]]
    else:
        arg = ["int+list", [a, list(range(20, 20 + b))]]
    script = {}
    for _ in range(rng.choice([0, 1, 2, 3])):
        script[str(rng.randrange(0, 10))] = [rng.choice(["break", "continue", "break", "continue", "raise"])]
    return {"nested": ni, "arg": arg, "script": script}


def gen_case(rng):
    if rng.random() < 0.15:
        return gen_nested_case(rng)
    li = rng.randrange(len(LOOPS))
    name = LOOPS[li][0]
    size = rng.choice([0, 1, 2, 3, 4, 5, 8])
    if name.startswith("dict"):
        arg = ["dict", [[k * 3 + 1, k] for k in range(size)]]
        muts = DICT_MUT
    elif name.startswith("set"):
        arg = ["set", [k * 7 + 2 for k in range(size)]]
        muts = SET_MUT
    elif name.startswith("frozenset"):
        arg = ["frozenset", [k * 7 + 2 for k in range(size)]]
        muts = []
    elif name.startswith(("list", "enumerate", "reversed_list", "reversed_untyped")):
        arg = ["list", [k + 10 for k in range(size)]]
        muts = LIST_MUT
    elif name.startswith("tuple"):
        arg = ["tuple", [k + 10 for k in range(size)]]
        muts = []
    elif name.startswith("str"):
        arg = ["str", "abcdefghij"[:size]]
        muts = []
    elif name.startswith("bytes"):
        arg = ["bytes", "abcdefghij"[:size]]
        muts = []
    elif name.startswith("bytearray"):
        arg = ["bytearray", ("abcdefghij" * 7)[:size if rng.random() < 0.7 else size * 8]]
        muts = BA_MUT
    elif name.startswith("range_mix"):
        RANGES = {"cython.uchar": (0, 255), "cython.schar": (-128, 127), "cython.short": (-32768, 32767),
                  "cython.int": (-2 ** 31, 2 ** 31 - 1), "cython.long": (-2 ** 63, 2 ** 63 - 1), None: (-2 ** 70, 2 ** 70)}
        vals = []
        for prm in LOOPS[li][1].split(", "):
            lo, hi = RANGES[prm.split(": ")[1] if ": " in prm else None]
            edge = [lo, lo + 1, lo + 5, hi - 5, hi - 1, hi, 0, 1, -1, 3, 250, 255, 256, 260, 127, 128, 130, 32767, 32768, 32770, -129, -130,
                    2 ** 31 - 1, 2 ** 31, 2 ** 31 + 3, 2 ** 63 - 1, 2 ** 63, 2 ** 63 + 4, -2 ** 31 - 2, -2 ** 63 - 2]
            vals.append(rng.choice([v for v in edge if lo <= v <= hi]))
        start = vals[0] if len(vals) == 2 else 1
        down = "neg" in name
        # keep the number of iterations small: move the start next to the stop when they are far apart (within the start's own type range)
        if len(vals) == 2 and abs(vals[1] - start) > 40:
            lo, hi = RANGES[LOOPS[li][1].split(", ")[0].split(": ")[1]]
            cand = vals[1] + (rng.choice([2, 9, 30]) if down else -rng.choice([2, 9, 30]))
            vals[0] = max(lo, min(hi, cand))
            start = vals[0]
        arg = ["ints", vals]
        muts = []
        far = abs(vals[-1] - start) > 60
    else:
        nparams = LOOPS[li][1].count(",") + 1
        typed = "cython.int" in LOOPS[li][1]
        INT_MAX, INT_MIN = 2147483647, -2147483648
        pool = [-7, -3, -1, 0, 1, 2, 3, 5, 9, INT_MAX - 7, INT_MAX - 1, INT_MAX, INT_MIN, INT_MIN + 1, INT_MIN + 8]
        if not typed:
            pool += [INT_MAX + 2, INT_MIN - 3, 2 ** 63 - 2, 2 ** 63 + 1, -2 ** 63]
        vals = [rng.choice(pool) for _ in range(nparams)]
        if nparams == 3:
            vals[2] = rng.choice([-7, -3, -2, -1, 0, 1, 2, 3, 5, 9] + ([INT_MAX, INT_MIN] if rng.random() < 0.1 else []))
        if nparams == 3 and vals[2] == 0 and rng.random() < 0.7:
            vals[2] = rng.choice([1, -1, 2, -2, 3])
        # keep iteration counts small
        if nparams >= 2 and abs(vals[1] - vals[0]) > 40:
            step = abs(vals[2]) if nparams == 3 and vals[2] else 1
            if abs(vals[1] - vals[0]) // max(step, 1) > 40:
                vals[1] = vals[0] + rng.choice([-9, -2, 0, 3, 8]) * (1 if vals[0] < 2000000000 else -1)
        if nparams == 1:
            vals[0] = rng.choice([-2, 0, 1, 3, 6])
        if typed:
            # arguments must fit the declared C int, otherwise the call itself raises OverflowError (outside this property)
            vals = [max(INT_MIN, min(INT_MAX, v)) for v in vals]
        arg = ["ints", vals]
        muts = []
    script = {}
    nact = rng.choice([0, 1, 1, 2, 3])
    for _ in range(nact):
        k = rng.randrange(0, 7)
        r = rng.random()
        if muts and r < 0.65:
            script[str(k)] = [rng.choice(muts)]
        elif r < 0.65:
            pass
        elif r < 0.78:
            script[str(k)] = ["break"]
        elif r < 0.90:
            script[str(k)] = ["continue"]
        else:
            script[str(k)] = ["raise"]
    if name.startswith("range_mix") and far and not any(v[0] in ("break", "raise") for v in script.values()):
        script[str(rng.randrange(2, 7))] = ["break"]      # a long range is always left early
    return {"loop": li, "arg": arg, "script": script}


def is_known_f10(case, rm, rs):
    """Known finding F10: a dict key is replaced during compiled iteration without changing the size (delete + insert);
    CPython raises RuntimeError('dictionary keys changed during iteration'), compiled code only compares sizes.
    Matched narrowly: dict loop, the script contains a same-size replacement, and CPython's outcome is exactly that error."""
    if "nested" in case or not LOOPS[case["loop"]][0].startswith("dict"):
        return False
    if not any(v[0] in ("same_size", "del_and_reinsert") for v in case["script"].values()):
        return False
    return rm["outcome"][:2] == ["raise", "RuntimeError"] and "keys changed during iteration" in rm["outcome"][2]


def make_arg(arg):
    k, v = arg
    if k == "list+str":
        return [list(v[0]), v[1]]
    if k == "int+bytes":
        return [v[0], v[1].encode()]
    if k == "dict+int":
        return [dict((a, b) for a, b in v[0]), v[1]]
    if k == "int+list":
        return [v[0], list(v[1])]
    if k == "dict":
        return [dict((a, b) for a, b in v)]
    if k == "set":
        return [set(v)]
    if k == "frozenset":
        return [frozenset(v)]
    if k == "list":
        return [list(v)]
    if k == "tuple":
        return [tuple(v)]
    if k == "str":
        return [v]
    if k == "bytes":
        return [v.encode()]
    if k == "bytearray":
        return [bytearray(v.encode())]
    return list(v)


def case_name(case):
    return NESTED[case["nested"]][0] if "nested" in case else LOOPS[case["loop"]][0]


def run_case(mod, case, ls):
    name = case_name(case)
    args = make_arg(case["arg"])
    ls.reset({int(k): v for k, v in case["script"].items()}, args[0] if case["arg"][0] not in ("ints",) else None)
    fn = getattr(mod, "loop_" + name)
    try:
        out = ("value", ls.nrm(fn(*args)))
    except RuntimeError as e:
        out = ("raise", "RuntimeError", str(e))         # the statement says 'the same RuntimeError'
    except BaseException as e:
        out = ("raise", type(e).__name__)
    after = None
    if case["arg"][0] in ("dict", "set", "list", "bytearray"):
        t = args[0]
        after = sorted(map(repr, t.items())) if isinstance(t, dict) else (sorted(map(repr, t)) if isinstance(t, set) else list(t))
    return json.loads(json.dumps({"outcome": out, "log": list(ls.LOG), "after": after}, default=repr))


_loaded = {}


def load_pair(ms):
    if ms["name"] not in _loaded:
        if SEAMDIR not in sys.path:
            sys.path.insert(0, SEAMDIR)
        import loopseam
        sut = build.load_ext(ms["name"], ms["so"])
        model = build.load_py(ms["name"] + "_model", ms["src"])
        _loaded[ms["name"]] = (sut, model, loopseam)
    return _loaded[ms["name"]]


def diff(a, b):
    if a == b:
        return None
    if a["log"] != b["log"]:
        k = 0
        while k < min(len(a["log"]), len(b["log"])) and a["log"][k] == b["log"][k]:
            k += 1
        return {"what": "visit-sequence", "event": k, "model": a["log"][k:k + 2], "sut": b["log"][k:k + 2]}
    if a["outcome"] != b["outcome"]:
        return {"what": "outcome-or-final-loop-variable", "model": a["outcome"], "sut": b["outcome"]}
    return {"what": "container-after-loop", "model": a["after"], "sut": b["after"]}


def one_run(check, seed, i, cfg):
    mods = cfg["modules"]
    rng = core.rng_for(check, seed, i)
    res = {"probes": {}, "faults": {}, "n": 0, "nontrivial_digests": [], "steps": 0}
    for j in range(cfg["cases_per_run"]):
        ms = mods[(i + j) % len(mods)]
        sut, model, ls = load_pair(ms)
        case = gen_case(rng)
        rm = run_case(model, case, ls)
        rs = run_case(sut, case, ls)
        res["n"] += 1
        res["steps"] += len(rm["log"])
        res["probes"]["cell:" + ms["cell"]] = res["probes"].get("cell:" + ms["cell"], 0) + 1
        for a in case["script"].values():
            res["faults"][a[0]] = res["faults"].get(a[0], 0) + 1
        if rm["outcome"][0] == "raise" and rm["outcome"][1] == "RuntimeError":
            res["probes"]["mutation_detected_runtimeerror"] = res["probes"].get("mutation_detected_runtimeerror", 0) + 1
        if any(e[0] == "site" and e[1] >= 200 for e in rm["log"]):
            res["probes"]["else_clause_ran"] = res["probes"].get("else_clause_ran", 0) + 1
        if "nested" in case:
            res["probes"]["nested_loop_cases"] = res["probes"].get("nested_loop_cases", 0) + 1
            if any(e[0] == "visit" and isinstance(e[1], list) and e[1][:1] == ["inner-else"] for e in rm["log"]) and case["script"]:
                res["nontrivial_digests"].append(core.digest([ms["cell"], case]))
        if any(e[0] == "mutate" for e in rm["log"]):
            res["nontrivial_digests"].append(core.digest([ms["cell"], case]))
        d = diff(rm, rs)
        if d is not None and is_known_f10(case, rm, rs):
            res["probes"]["known_F10_same_size_key_replacement"] = res["probes"].get("known_F10_same_size_key_replacement", 0) + 1
            d = None
        if d is not None and "violation" not in res:
            res["violation"] = {"klass": "loop-differs-from-cpython:" + d["what"], "detail": d, "case": case, "cell": ms["cell"],
                                "loop_name": case_name(case)}
        if i % 400 == 0 and j == 0:
            res["sample"] = {"loop": case_name(case), "case": case, "model": rm}
    return res


CELLS = [{"cell": "default", "cflags": ()}, {"cell": "dict_versions", "cflags": ("-DCYTHON_USE_DICT_VERSIONS=1",)},
         {"cell": "O2", "cflags": ("-O2",)}]


def build_mods(cells=None, tag=""):
    cells = cells or CELLS
    specs = [{"name": "wl14_" + tag + c["cell"], "src": SRC, "ext": ".py", "cflags": c["cflags"]} for c in cells]
    sos = build.build_many(specs)
    mods = []
    for c, sp, so in zip(cells, specs, sos):
        if isinstance(so, Exception):
            raise core.HarnessError("C14 workload build failed (%s): %s" % (c["cell"], str(so)[-800:]))
        mods.append({"name": sp["name"], "so": so, "src": SRC, "cell": c["cell"]})
    return mods


def run_single(mods, cell, case):
    for ms in mods:
        if ms["cell"] == cell:
            sut, model, ls = load_pair(ms)
            rm, rs = run_case(model, case, ls), run_case(sut, case, ls)
            d = diff(rm, rs)
            if d is not None and is_known_f10(case, rm, rs) and not os.environ.get("SIMKIT_RAW_REPLAY"):
                return None
            return d
    return None


def recover_crash(seed, i, cfg, mods):
    """A worker died in run i: find the case (same generator stream) whose compiled loop crashes, each tried in its own fork."""
    rng = core.rng_for(PROP, seed, i)
    for j in range(cfg["cases_per_run"]):
        ms = mods[(i + j) % len(mods)]
        case = gen_case(rng)
        st, r = core.run_one_forked(run_single, mods, ms["cell"], case, timeout=30)
        if st == "crash":
            return {"klass": "crash", "detail": {"signal": r}, "case": case, "cell": ms["cell"], "loop_name": case_name(case)}
    return None


def replay(payload):
    core.stage()
    mods = build_mods()
    if payload.get("raw"):
        os.environ["SIMKIT_RAW_REPLAY"] = "1"
    try:
        st, r = core.run_one_forked(run_single, mods, payload["cell"], payload["case"], timeout=60)
    finally:
        os.environ.pop("SIMKIT_RAW_REPLAY", None)
    print("replayed: %s %s" % (st, json.dumps(r)[:500] if r is not None else None))
    return st == "crash" or (st == "ok" and r is not None)


def check(tier):
    seed = core.env_seed()
    core.stage()
    rep = core.Report(PROP, ENGINE, tier, seed)
    rep.rule = ("%d compiled loop shapes (dict / keys / values / items, set, frozenset, list, tuple, str, bytes, bytearray, enumerate, reversed, range with 1-3 "
                "arguments incl. C-typed bounds/steps/targets, reversed(range), reversed(bytearray), ranges whose bounds have different C widths / kinds with a target bound by the loop only, loops that rebind the iterated name) whose body calls the simulator's hook; per case a seeded "
                "script tells the hook at which visit to mutate the container (insert, burst insert, delete visited/unvisited, replace value, clear, same-size replacement), "
                "break, continue or raise. oracle vs CPython: visit sequence, exception type (message for RuntimeError), final loop variable(s), else clause, container after "
                "the loop. 3 build cells. non-trivial = the hook mutated the container; distinct = (cell, case) digest" % len(LOOPS))
    rep.components = {"real": ["generated C for optimised loops (Optimize.py transforms, __Pyx_dict_iterator / __Pyx_set_iterator / C for-loops)", "Cython/Utility/Optimize.c"],
                      "stub": ["hook = second party mutating the container / steering the loop"]}
    rep.assumptions = ["SIM-part: C-array iteration and arithmetic at C type bounds beyond values CPython can model are not covered",
                       "exception messages other than RuntimeError's are not compared"]
    rep.quarantined = ["F10: dict loops whose script replaces a key without changing the size and for which CPython raises 'dictionary keys changed during iteration' are counted as known finding F10, not compared"]
    budget = core.env_budget(45 if tier == "quick" else 900)
    mods = build_mods()
    cfg = {"modules": mods, "cases_per_run": 200, "case_timeout_s": 60}
    deadline = time.time() + budget
    n = 1600 if tier == "quick" else 10 ** 8
    batch = 1600 if tier == "quick" else 16000
    start, viol = 0, []
    while start < n and time.time() < deadline:
        results = core.run_forked(one_run, PROP, seed, range(start, min(n, start + batch)), cfg, deadline=deadline)
        for i, r in results:
            if "crash" in r:
                # the compiled loop itself died (e.g. read past the end of a container that shrank): a violation, once located
                v = recover_crash(seed, i, cfg, mods) if not any(x[1]["klass"] == "crash" for x in viol) else None
                if v is not None:
                    viol.append((i, v))
                elif not any(x[1]["klass"] == "crash" for x in viol):
                    rep.harness_errors.append("run %d crashed a worker (signal %s) but no single case reproduces it" % (i, r["crash"]))
                continue
            if "harness_error" in r:
                rep.harness_errors.append(r["harness_error"])
                continue
            rep.absorb(r)
            if "violation" in r:
                viol.append((i, r["violation"]))
        start += batch
        if viol:
            break
    core.replay_known(PROP, replay, rep)
    a = dict(core.run_forked(one_run, PROP, seed, range(6), cfg, jobs=2))
    b = dict(core.run_forked(one_run, PROP, seed, range(6), cfg, jobs=3))
    mism = sum(core.digest(a[k]) != core.digest(b[k]) for k in range(6))
    rep.determinism = {"seeds": 6, "mismatches": mism}
    if mism:
        rep.harness_errors.append("determinism self-check failed")
    seen = set()
    for i, v in viol:
        key = (v["klass"], v["loop_name"])
        if key in seen or len(seen) >= 4:
            continue
        seen.add(key)
        case = v["case"]
        # shrink the script
        items = sorted(case["script"].items())

        def fails(it):
            st, r = core.run_one_forked(run_single, mods, v["cell"], dict(case, script=dict(it)), timeout=30)
            return st == "crash" or (st == "ok" and r is not None)
        if len(items) > 1:
            items = core.ddmin(items, fails, max_tests=20)
        v = dict(v, case=dict(case, script=dict(items)), minimised=True)
        rep.violation("%s in %s, cell %s (run %s): %s" % (v["klass"], v["loop_name"], v["cell"], i, json.dumps(v["detail"])[:300]),
                      dict(v, seed=seed, run_index=i, property=PROP))
    rep.extra["clock"] = "none"
    return rep.finish()
