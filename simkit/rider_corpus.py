"""Rider corpus: a small enumerated workload (integer arithmetic with constant
operands at the PyLong digit boundaries, memoryview/str/bytes slicing and
indexing around the bounds) that the C39 and C36 riders run in every build
cell / under the sanitizers.  This part is input enumeration, not simulation;
it is there because configuration-specific and memory-unsafe code for these
operations is not reached by the simulated workloads.
"""
import array
import json
import random

from . import core, build

def _big_texts():
    """Deterministic pseudo-text constants (about 60 KB in all): repeats at many distances, so that the string-table
    compressor emits back-references of every offset/length class."""
    rng = random.Random(20240917)
    vocab = ["".join(rng.choice("abcdefghijklmnopqrstuvwxyz") for _ in range(rng.randint(2, 9))) for _ in range(160)]
    texts = []
    for k in range(40):
        words = []
        n = rng.randint(120, 320)
        while len(words) < n:
            if words and rng.random() < 0.25:
                a = rng.randrange(len(words))
                words += words[a:a + rng.randint(2, 12)]          # a repeated phrase
            else:
                words.append(rng.choice(vocab))
        texts.append("T%02d " % k + " ".join(words))
    # back-references at chosen distances and lengths (the boundaries of the compressor's offset/length encodings):
    # marker + incompressible filler + the same marker again, the marker occurring nowhere else
    alpha = "ABCDEFGHIJKLMNOPQRSTUVWXYZabcdefghijklmnopqrstuvwxyz0123456789-_=+[]{};:,.<>/?|~!@#$%^&*()"
    dists = [0, 1, 3, 34, 126, 127, 128, 129, 130, 255, 256, 257, 511, 512, 513, 638, 639, 640, 641, 642, 767, 768,
             1023, 1024, 1025, 4096, 16383, 16384, 16511, 16512, 16513]
    for d in dists:
        for L in ((4, 20, 34, 35, 66) if d < 2000 else (20,)):
            # d = gap between the end of the first occurrence and the start of the repeat
            m = "".join(rng.choice(alpha) for _ in range(L))
            f = "".join(rng.choice(alpha) for _ in range(d))
            texts.append("D%d/%d " % (d, L) + m + f + m + " end")
    return texts


BIG_TEXTS = _big_texts()

SRC = '''# cython: language_level=3
def mul_c(x):
    return (x * 1000, 1000 * x, x * 1073741823, x * -7, x * 3, 1073741824 * x)

def add_c(x):
    return (x + 1073741823, x - 1073741823, 5 + x, x + 1, x - 1, 1073741823 - x)

def shift_c(x):
    return (x << 5, x >> 3, x << 40, x >> 31)

def div_c(x):
    return (x // 7, x % 7, x // -3, x % -3, x // 1073741823)

def bit_c(x):
    return (x & 0xff, x | 0x10, x ^ 0x55, x & 0x3fffffff)

def cmp_c(x):
    return (x == 5, x != 5, x < 100, x >= -1, x == 1073741824, 0 == x)

def mv_slice(int[:] m, start, stop, step):
    return list(m[start:stop:step])

def mv_index(int[:] m, Py_ssize_t i):
    return m[i]

def str_slice(str s, a, b):
    return s[a:b]

def str_index(str s, Py_ssize_t i):
    return s[i]

def bytes_index(bytes b, Py_ssize_t i):
    return b[i]

def list_index(list l, Py_ssize_t i):
    return l[i]

def tuple_slice(tuple t, a, b):
    return t[a:b]

def list_slice(list l, a, b):
    return l[a:b]

def mv_assign(int[:, :] a, int k, int mode):
    # slice assignments whose source overlaps the destination and/or is broadcast (copied through a temporary buffer)
    if mode == 0:
        a[:, :] = a[k:k+1, :]
    elif mode == 1:
        a[:, :] = a[k]
    elif mode == 2:
        a[1:, :] = a[:-1, :]
    elif mode == 3:
        a[:, 1:] = a[:, :-1]
    elif mode == 4:
        a[:, :] = a[::-1, :]
    else:
        a[:, :] = a[:, k:k+1]
    return [[a[i, j] for j in range(a.shape[1])] for i in range(a.shape[0])]

def kw_merge(f, d1, d2):
    return f(**d1, **d2)

def fmt_i(int x):
    return (f"{x:05d}", f"{x:>8d}", f"{x:<6}|", f"{x:x}", f"{x:08X}", f"{x}", f"{x:3}", f"{x:03}", f"{x:012d}", '%5d' % x, '%-6d|' % x, "%05d" % x, "%x" % x, str(x))

def fmt_l(long long x):
    return (f"{x:05d}", f"{x:>24d}", f"{x:<6}|", f"{x:x}", f"{x:020X}", f"{x}", f"{x:022d}", '%25d' % x, "%021d" % x, str(x))

def fmt_u(unsigned int x):
    return (f"{x:05d}", f"{x:>12d}", f"{x:o}", f"{x:012x}", f"{x}", "%012d" % x)
'''

SRC += "\ndef big_strings(int k):\n    t = (" + ", ".join(repr(t) for t in BIG_TEXTS) + ")\n    return t[k]\n"


def model(fn, args):
    x = args[0] if args else None
    if fn == "mul_c":
        return (x * 1000, 1000 * x, x * 1073741823, x * -7, x * 3, 1073741824 * x)
    if fn == "add_c":
        return (x + 1073741823, x - 1073741823, 5 + x, x + 1, x - 1, 1073741823 - x)
    if fn == "shift_c":
        return (x << 5, x >> 3, x << 40, x >> 31)
    if fn == "div_c":
        return (x // 7, x % 7, x // -3, x % -3, x // 1073741823)
    if fn == "bit_c":
        return (x & 0xff, x | 0x10, x ^ 0x55, x & 0x3fffffff)
    if fn == "cmp_c":
        return (x == 5, x != 5, x < 100, x >= -1, x == 1073741824, 0 == x)
    if fn == "mv_slice":
        return list(args[0])[args[1]:args[2]:args[3]]
    if fn in ("mv_index", "str_index", "bytes_index", "list_index"):
        return args[0][args[1]]
    if fn in ("str_slice", "tuple_slice", "list_slice"):
        return args[0][args[1]:args[2]]
    if fn == "kw_merge":
        return _kwf(**args[1], **args[2])
    if fn == "big_strings":
        return BIG_TEXTS[args[0]]
    if fn == "mv_assign":
        r, c, k, mode = args
        a = [[i * 10 + j for j in range(c)] for i in range(r)]
        if mode in (0, 1):
            return [list(a[k]) for _ in range(r)]
        if mode == 2:
            return [list(a[0])] + [list(a[i - 1]) for i in range(1, r)]
        if mode == 3:
            return [[row[0]] + row[:-1] for row in a]
        if mode == 4:
            return [list(x) for x in a[::-1]]
        return [[row[k]] * c for row in a]
    if fn == "fmt_i":
        return (f"{x:05d}", f"{x:>8d}", f"{x:<6}|", f"{x:x}", f"{x:08X}", f"{x}", f"{x:3}", f"{x:03}", f"{x:012d}", '%5d' % x, '%-6d|' % x, "%05d" % x, "%x" % x, str(x))
    if fn == "fmt_l":
        return (f"{x:05d}", f"{x:>24d}", f"{x:<6}|", f"{x:x}", f"{x:020X}", f"{x}", f"{x:022d}", '%25d' % x, "%021d" % x, str(x))
    if fn == "fmt_u":
        return (f"{x:05d}", f"{x:>12d}", f"{x:o}", f"{x:012x}", f"{x}", "%012d" % x)
    raise ValueError(fn)


def _kwf(**k):
    return sorted(k)


def _kwdict(pairs):
    return {(tuple(k) if isinstance(k, list) else k): v for k, v in pairs}


def cases(seed):
    rng = random.Random(seed)
    out = []
    ints = [0, 1, 2 ** 15, 2 ** 30 - 1, 2 ** 30, 2 ** 30 + 1, 2 ** 31 - 1, 2 ** 31, 2 ** 45 + 7, 2 ** 59, 2 ** 60 - 1, 2 ** 60, 2 ** 61 + 12345,
            2 ** 62, 2 ** 63 - 1, 2 ** 63, 2 ** 64, 2 ** 90 + 3, 576460752303435833, 9223372036854775, 4611686018427387904 - 1]
    ints += [rng.randrange(2 ** 30, 2 ** 60) for _ in range(24)] + [rng.randrange(0, 2 ** 66) for _ in range(12)]
    ints = ints + [-v for v in ints]
    for fn in ("mul_c", "add_c", "shift_c", "div_c", "bit_c", "cmp_c"):
        for v in ints:
            if fn == "shift_c" and v < 0 and False:
                continue
            out.append([fn, [v]])
    for n in range(0, 5):
        vals = list(range(10, 10 + n))
        rng_pos = [None] + list(range(-n - 2, n + 3))
        for st in rng_pos:
            for sp in rng_pos:
                for step in (None, 1, 2, 3, -1, -2, -3):
                    out.append(["mv_slice", [vals, st, sp, step]])
        for i in range(-n - 2, n + 3):
            out.append(["mv_index", [vals, i]])
            out.append(["list_index", [vals, i]])
            out.append(["str_index", ["abcdef"[:n], i]])
            out.append(["bytes_index", ["abcdef"[:n], i]])
        for a in rng_pos:
            for b in rng_pos:
                out.append(["str_slice", ["abcdef"[:n], a, b]])
                out.append(["tuple_slice", [vals, a, b]])
                out.append(["list_slice", [vals, a, b]])
    for k in range(len(BIG_TEXTS)):
        out.append(["big_strings", [k]])
    for r_, c_ in ((1, 1), (2, 3), (3, 2), (4, 5), (5, 1)):
        for mode in range(6):
            for k in range(r_ if mode in (0, 1) else (c_ if mode == 5 else 1)):
                out.append(["mv_assign", [r_, c_, k, mode]])
    # ** merging of two mappings: duplicate / non-string / mixed keys (pairs; list keys stand for tuples)
    kws = [[["a", 1]], [["a", 2], ["b", 3]], [[1, 2]], [[1, 3], [2, 4]], [[[1, 2], 3]], [[None, 1]], [], [["b", 1], [1, 2]], [[2.5, 1]]]
    for d1 in kws:
        for d2 in kws:
            out.append(["kw_merge", [d1, d2]])
    small = [0, 1, -1, 7, -7, 42, -42, 999, -999, 12345, -12345, 99999, -99999, 2 ** 31 - 1, -2 ** 31, 1000000, -1000000] + [rng.randrange(-2 ** 31, 2 ** 31) for _ in range(12)]
    for v in small:
        out.append(["fmt_i", [v]])
        out.append(["fmt_l", [v]])
        if v >= 0:
            out.append(["fmt_u", [v]])
    for v in [2 ** 63 - 1, -2 ** 63, 2 ** 40 + 3, -2 ** 40 - 3, 10 ** 18, -10 ** 18] + [rng.randrange(-2 ** 63, 2 ** 63) for _ in range(12)]:
        out.append(["fmt_l", [v]])
    for v in [2 ** 32 - 1, 2 ** 31, 4000000000]:
        out.append(["fmt_u", [v]])
    return out


def to_args(fn, args):
    if fn in ("mv_slice", "mv_index"):
        return [array.array("i", args[0])] + list(args[1:])
    if fn == "bytes_index":
        return [args[0].encode(), args[1]]
    if fn == "tuple_slice":
        return [tuple(args[0])] + list(args[1:])
    if fn == "kw_merge":
        return [_kwf, _kwdict(args[0]), _kwdict(args[1])]
    if fn == "mv_assign":
        r, c, k, mode = args
        flat = array.array("i", [i * 10 + j for i in range(r) for j in range(c)])
        return [memoryview(flat).cast("B").cast("i", shape=[r, c]), k, mode]
    return list(args)


def norm(v):
    if isinstance(v, tuple):
        return [norm(x) for x in v]
    if isinstance(v, list):
        return [norm(x) for x in v]
    if isinstance(v, bytes):
        return ["bytes", v.decode("latin1")]
    return v


def run_all(so, name, seed):
    """-> list of outcomes, one per case (value or exception type)."""
    mod = build.load_ext(name, so)
    out = []
    for fn, args in cases(seed):
        try:
            out.append(["value", norm(getattr(mod, fn)(*to_args(fn, args)))])
        except BaseException as e:
            out.append(["raise", type(e).__name__])
    return out


def run_range(so, name, seed, lo, hi):
    mod = build.load_ext(name, so)
    n = 0
    for fn, args in cases(seed)[lo:hi]:
        try:
            getattr(mod, fn)(*to_args(fn, args))
        except BaseException:
            pass
        n += 1
    return n


def find_crashing_case(so, name, seed):
    """The whole corpus run died: bisect (each probe in its own forked child) for a single case that crashes on its own."""
    cs = cases(seed)
    lo, hi = 0, len(cs)
    st, _ = core.run_one_forked(run_range, so, name, seed, lo, hi, timeout=600)
    if st == "ok":
        return None
    while hi - lo > 1:
        mid = (lo + hi) // 2
        st, _ = core.run_one_forked(run_range, so, name, seed, lo, mid, timeout=600)
        if st != "ok":
            hi = mid
        else:
            st2, _ = core.run_one_forked(run_range, so, name, seed, mid, hi, timeout=600)
            if st2 == "ok":
                return None         # only crashes in combination
            lo = mid
    return cs[lo]


def run_case(so, name, case):
    mod = build.load_ext(name, so)
    fn, args = case
    try:
        return ["value", norm(getattr(mod, fn)(*to_args(fn, args)))]
    except BaseException as e:
        return ["raise", type(e).__name__]


def model_case(case):
    return model_list([case])[0]


def model_all(seed):
    return model_list(cases(seed))


def model_list(cs):
    out = []
    for fn, args in cs:
        a = list(args)
        if fn == "bytes_index":
            a = [args[0].encode(), args[1]]
        if fn == "tuple_slice":
            a = [tuple(args[0])] + list(args[1:])
        if fn == "kw_merge":
            a = [_kwf, _kwdict(args[0]), _kwdict(args[1])]
        try:
            out.append(["value", norm(model(fn, a))])
        except BaseException as e:
            out.append(["raise", type(e).__name__])
    return out


def build_cell(tag, cflags=(), directives=None, cplus=False):
    name = "wlcorpus_" + tag
    return name, build.build_ext(name, SRC, ".pyx", cflags=tuple(cflags), directives=directives, cplus=cplus)


def first_diff(a, b, seed):
    cs = cases(seed)
    for k, (x, y) in enumerate(zip(a, b)):
        if x != y:
            return {"case": cs[k], "a": x, "b": y, "index": k}
    return None
