"""E5 fault-sweep — C35.  Compiled (with -DCYTHON_REFNANNY=1 and refnanny
built from the current tree) functions over chaos objects; for each function
the k-th fallible call is made to raise, for every k; invariants per run:
refnanny silent, object conservation, argument refcounts unchanged, no
crash, the injected exception propagates (or, where a handler can catch it,
the result equals CPython's provided the call logs agree up to the fault).
"""
import gc
import io
import json
import os
import sys
import time

from . import core, build

PROP = "C35"
ENGINE = "E5-fault-sweep"
SEAMDIR = os.path.dirname(os.path.abspath(__file__))


# --------------------------------------------------------------------------
# grammar

class G:
    """Locals that receive a C-typed (inferred) scalar (len/int/float/bool/not/comparison results) are only used where
    any object may stand; positions that need an object protocol (call, subscript, iteration, with, ~, attribute)
    use the arguments or object-valued locals."""

    def __init__(self, rng, idx):
        self.rng, self.idx = rng, idx
        self.locs = []          # (name, is_scalar)
        self.has_handler = False
        self.tmp = 0

    @property
    def nloc(self):
        return len(self.locs)

    def atom(self, obj=True):
        names = ["a", "b", "c"] + [n for n, sc in self.locs if not (obj and sc)]
        return self.rng.choice(names)

    def expr(self, d):
        return self.expr2(d)[0]

    def expr2(self, d):
        """-> (text, is_scalar)"""
        if d <= 0 or self.rng.random() < 0.25:
            n = self.atom(obj=False)
            return n, any(n == m and sc for m, sc in self.locs)
        E = lambda: self.expr2(d - 1)[0]
        O = lambda: self.obj_expr(d - 1)
        self.tmp += 1
        t = "t%d" % self.tmp
        A = self.atom
        obj_choices = [
            lambda: "(%s + %s)" % (O(), E()),
            lambda: "(%s * %s)" % (O(), E()),
            lambda: "(%s - %s)" % (O(), E()),
            lambda: "(-%s)" % O(),
            lambda: "(~%s)" % O(),
            lambda: "%s[%s]" % (A(), E()),
            lambda: "%s[1]" % A(),
            lambda: "%s[0:1]" % A(),
            lambda: "%s.at" % A(),
            lambda: "%s(%s)" % (A(), E()),
            lambda: "%s(%s, k=%s)" % (A(), E(), E()),
            lambda: "%s(*[%s, %s])" % (A(), E(), E()),
            lambda: "%s(**{'k': %s})" % (A(), E()),
            lambda: "[%s, %s]" % (E(), E()),
            lambda: "(%s, %s)" % (E(), E()),
            lambda: "{%s: %s}" % (O(), E()),
            lambda: "{%s, %s}" % (O(), O()),
            lambda: "[%s + %s for %s in %s]" % (t, E(), t, A()),
            lambda: "{%s: %s for %s in %s}" % (t, E(), t, A()),
            lambda: "list(%s for %s in %s)" % ("%s * %s" % (t, E()), t, A()),
            lambda: 'f"{%s}{%s!r}{%s:>3}"' % (A(), A(), A()),
            lambda: "(%s if %s else %s)" % (O(), E(), O()),
            lambda: "(%s and %s)" % (O(), O()),
            lambda: "(%s or %s)" % (O(), O()),
            lambda: "str(%s)" % E(),
            lambda: "list(%s)" % A(),
            lambda: "tuple(%s)" % A(),
            lambda: "(lambda q: q + %s)(%s)" % (A(), O()),
            lambda: "max(%s, %s)" % (A(), A()),
            lambda: "getattr(%s, 'zz', %s)" % (A(), O()),
            lambda: "(%s, *%s)" % (E(), A()),
            lambda: "[*%s, %s]" % (A(), E()),
            lambda: "{**{'p': %s}, 'q': %s}" % (E(), E()),
            # mapping / iterable unpacking of chaos objects (non-dict sources, duplicate keywords 'k')
            lambda: "%s(**%s)" % (A(), A()),
            lambda: "%s(%s, **%s)" % (A(), E(), A()),
            lambda: "%s(k=%s, **%s)" % (A(), E(), A()),
            lambda: "%s(**{'p': %s}, **%s)" % (A(), E(), A()),
            lambda: "%s(**{'k': %s}, **%s)" % (A(), E(), A()),
            lambda: "%s(**%s, **%s)" % (A(), A(), A()),
            lambda: "{**%s, 'q': %s}" % (A(), E()),
            lambda: "{'k': %s, **%s}" % (E(), A()),
            lambda: "%s(*%s)" % (A(), A()),
            lambda: "%s(%s, *%s, k=%s)" % (A(), E(), A(), E()),
            lambda: "[*%s, *%s]" % (A(), A()),
        ]
        scalar_choices = [
            lambda: "len(%s)" % O(),
            lambda: "(not %s)" % E(),
            lambda: "(%s < %s)" % (O(), O()),
            lambda: "(%s == %s)" % (O(), E()),
            lambda: "(%s in %s)" % (E(), A()),
            lambda: "(%s is %s)" % (E(), E()),
            lambda: "int(%s)" % A(),
            lambda: "float(%s)" % A(),
            lambda: "bool(%s)" % E(),
            lambda: "isinstance(%s, Ch)" % E(),
        ]
        if self.rng.random() < 0.22:
            return self.rng.choice(scalar_choices)(), True
        return self.rng.choice(obj_choices)(), False

    def obj_expr(self, d):
        for _ in range(6):
            txt, sc = self.expr2(d)
            if not sc:
                return txt
        return self.atom()

    def newloc(self, scalar=False):
        self.locs.append(("x%d" % len(self.locs), scalar))
        return self.locs[-1][0]

    def stmt(self, ind, depth):
        r = self.rng.random()
        E = lambda: self.expr2(2)[0]
        if r < 0.30:
            e, sc = self.expr2(2)
            return ["%s%s = %s" % (ind, self.newloc(sc), e)]
        if r < 0.38:
            e = self.atom()
            a, b = self.newloc(), self.newloc()
            return ["%s%s, %s = %s" % (ind, a, b, e)]
        if r < 0.43:
            e = self.atom()
            a, b = self.newloc(), self.newloc()
            return ["%s%s, *%s = %s" % (ind, a, b, e)]
        if r < 0.50:
            return ["%s%s[%s] = %s" % (ind, self.atom(), E(), E())]
        if r < 0.54:
            return ["%sdel %s[%s]" % (ind, self.atom(), E())]
        objlocs = [n for n, sc in self.locs if not sc]
        if r < 0.60 and objlocs:
            return ["%s%s += %s" % (ind, self.rng.choice(objlocs), self.obj_expr(2))]
        if r < 0.68 and depth > 0:
            self.tmp += 1
            t = "u%d" % self.tmp
            e = self.atom()
            acc = self.newloc()
            out = ["%s%s = a" % (ind, acc), "%sfor %s in %s:" % (ind, t, e)]
            out.append("%s    %s = %s + %s" % (ind, acc, acc, t))
            if self.rng.random() < 0.3:
                out.append("%s    if %s: break" % (ind, self.atom()))
            return out
        if r < 0.76 and depth > 0:
            self.tmp += 1
            w = "w%d" % self.tmp
            e = self.atom()
            v = self.newloc()
            self.has_handler = True      # __exit__ may suppress the exception: its fate is decided by comparison with CPython
            return ["%s%s = a" % (ind, v), "%swith %s as %s:" % (ind, e, w), "%s    %s = %s + %s" % (ind, v, w, E())]
        if r < 0.82 and depth > 0:
            v = self.newloc()
            c = E()
            return ["%s%s = a" % (ind, v), "%sif %s:" % (ind, c), "%s    %s = %s" % (ind, v, self.obj_expr(2)), "%selse:" % ind, "%s    %s = %s" % (ind, v, self.obj_expr(2))]
        if r < 0.88 and depth > 0:
            self.has_handler = True
            v = self.newloc()
            return ["%s%s = a" % (ind, v), "%stry:" % ind, "%s    %s = %s" % (ind, v, self.obj_expr(2)), "%sexcept Inj:" % ind, "%s    %s = %s" % (ind, v, self.obj_expr(2))]
        if r < 0.92 and depth > 0:
            v = self.newloc()
            return ["%s%s = a" % (ind, v), "%stry:" % ind, "%s    %s = %s" % (ind, v, self.obj_expr(2)), "%sfinally:" % ind, "%s    %s = %s" % (ind, "y_fin", self.atom())]
        if r < 0.96:
            self.tmp += 1
            g = "g%d" % self.tmp
            line = "%s%s = (q + %s for q in %s)" % (ind, g, self.atom(), self.atom())
            v = self.newloc()
            return [line, "%s%s = next(%s)" % (ind, v, g)]
        if objlocs:
            return ["%s%s = None" % (ind, self.rng.choice(objlocs))]
        e, sc = self.expr2(2)
        return ["%s%s = %s" % (ind, self.newloc(sc), e)]


def gen_function(rng, idx):
    g = G(rng, idx)
    body = []
    for _ in range(rng.randint(2, 5)):
        body += g.stmt("    ", 1)
    body.append("    return %s" % g.expr(2))
    head = "def f%d(a, b, c):" % idx
    init = ["    y_fin = None"]
    return head + "\n" + "\n".join(init + body), g.has_handler


HEADER = "from chaos import Ch, Inj\n\n"


def gen_module(rng, nfuncs):
    fs, handlers = [], []
    for k in range(nfuncs):
        src, hh = gen_function(rng, k)
        fs.append(src)
        handlers.append(hh)
    return HEADER + "\n\n\n".join(fs) + "\n", handlers


# --------------------------------------------------------------------------

_loaded = {}


def load_pair(ms):
    if ms["name"] not in _loaded:
        for d in (SEAMDIR, os.path.dirname(ms["refnanny"])):
            if d not in sys.path:
                sys.path.insert(0, d)
        import chaos
        import refnanny  # noqa: F401  (must be importable before the workload module initialises)
        sut = build.load_ext(ms["name"], ms["so"])
        model = build.load_py(ms["name"] + "_model", ms["src"])
        _loaded[ms["name"]] = (sut, model, chaos)
    return _loaded[ms["name"]]


def describe(e, ch):
    if isinstance(e, ch.Inj):
        return ("Inj", list(e.args))
    return (type(e).__name__,)


def norm(v, ch, depth=0):
    if isinstance(v, ch.Ch):
        return ("Ch", v.v)
    if isinstance(v, (int, float, str, bool, type(None))):
        return v
    if isinstance(v, (list, tuple)) and depth < 4:
        return [norm(x, ch, depth + 1) for x in v]
    if isinstance(v, dict) and depth < 4:
        return sorted((json.dumps(norm(k, ch, depth + 1)), norm(x, ch, depth + 1)) for k, x in v.items())
    if isinstance(v, (set, frozenset)) and depth < 4:
        return sorted(json.dumps(norm(x, ch, depth + 1)) for x in v)
    return "<%s>" % type(v).__name__


def run_case(mod, fi, plan, ch, check_refs):
    """Run f<fi> under plan; returns dict with outcome, log, and (for the SUT) the invariant report."""
    fn = getattr(mod, "f%d" % fi)
    gc.collect()
    args = [ch.Ch(3), ch.ChM(4), ch.Ch(5)]
    base_live = ch.LIVE[0]
    rc_before = [sys.getrefcount(a) for a in args]
    ch.reset({int(k): True for k in plan})
    cap = io.StringIO()
    old = sys.stdout
    sys.stdout = cap
    outcome = None
    try:
        try:
            r = fn(*args)
            outcome = ("value", norm(r, ch))
            del r
        except BaseException as e:
            outcome = ("raise",) + describe(e, ch)
            e.__traceback__ = None
            del e
    finally:
        sys.stdout = old
    ch.PLAN.clear()      # cleanup below must not be hit by leftover plan entries
    log = list(ch.LOG)
    ncalls = ch.COUNT[0]
    gc.collect()
    res = {"outcome": outcome, "log": log, "ncalls": ncalls}
    if check_refs:
        problems = []
        nanny = cap.getvalue()
        if nanny.strip():
            problems.append({"what": "refnanny-report", "text": nanny[-400:]})
        live = ch.LIVE[0]
        if live != base_live:
            problems.append({"what": "object-leak" if live > base_live else "object-over-release", "live_delta": live - base_live})
        rc_after = [sys.getrefcount(a) for a in args]
        if rc_after != rc_before:
            problems.append({"what": "argument-refcount-drift", "before": rc_before, "after": rc_after})
        res["problems"] = problems
    del args
    return res


_f35_cache = {}
F35_HITS = [0]


def f35_shape(ms, fi):
    """Known finding F35: does function f<fi> do 'NAME += ...' on a local that an inner generator expression or lambda of the
    same function captures (a closure variable)?"""
    key = (ms["name"], fi)
    if key not in _f35_cache:
        import re
        m = re.search(r"^def f%d\(.*?(?=^def f\d+\(|\Z)" % fi, ms["src"], re.S | re.M)
        body = m.group(0) if m else ""
        names = set(re.findall(r"^\s*(x\d+) \+= ", body, re.M))
        captured = set(re.findall(r"\(q \+ (x\d+) for q in", body)) | set(re.findall(r"lambda q: q \+ (x\d+)\)", body)) | \
            set(re.findall(r"for q in (x\d+)\)", body))
        _f35_cache[key] = bool(names & captured)
    return _f35_cache[key]


def is_known_f35(ms, fi, problems):
    """refnanny bookkeeping artefact, no real imbalance: the in-place str concatenation helper hands the left operand's
    reference over to refnanny although a closure variable's reference is owned by the closure scope.  Matched narrowly:
    the only problem is a refnanny report of the form 'Too many decrefs ... acquired on lines []' (+ the mirrored 'leaked'
    lines), live-object conservation and argument refcounts hold, and the function has the shape above."""
    if os.environ.get("SIMKIT_RAW_REPLAY"):
        return False
    return (len(problems) == 1 and problems[0]["what"] == "refnanny-report" and "Too many decrefs" in problems[0]["text"]
            and "acquired on lines []" in problems[0]["text"] and f35_shape(ms, fi))


LAST_SUT = [None]


def check_case(ms, fi, plan, pair):
    """Returns (nfallible_calls, violation or None, order_divergence flag)."""
    sut, model, ch = pair
    rs = run_case(sut, fi, plan, ch, True)
    LAST_SUT[0] = rs
    v = None
    od = False
    if rs["problems"] and is_known_f35(ms, fi, rs["problems"]):
        rs["problems"] = []
        F35_HITS[0] += 1
    if rs["problems"]:
        v = {"klass": rs["problems"][0]["what"], "detail": rs["problems"]}
    elif plan:
        k = int(sorted(plan, key=int)[0])
        fired = rs["ncalls"] > k
        if fired and not ms["handlers"][fi] and len(plan) == 1:
            if rs["outcome"] != ("raise", "Inj", [k]):
                v = {"klass": "injected-exception-not-propagated", "detail": {"expected": ["raise", "Inj", [k]], "got": rs["outcome"]}}
        elif fired:
            rm = run_case(model, fi, plan, ch, False)
            # "the k-th call" must denote the same call in both: the logs have to agree up to the LAST fault that fired
            # in either run (with two faults, a divergence between the first and the second one also makes the second
            # fault land on different calls)
            fired_ks = [int(x) for x in plan if int(x) < max(rs["ncalls"], rm["ncalls"])]
            kl = max(fired_ks) if fired_ks else k
            if rm["log"][:kl + 1] != rs["log"][:kl + 1]:
                od = True       # evaluation order differs before the fault: C20's business, not compared
            else:
                # only the fate of the injected exception is this property's business: does Inj(k) escape, and which one
                inj = lambda o: list(o[1:]) if (o[0] == "raise" and o[1] == "Inj") else None
                if inj(json.loads(json.dumps(rm["outcome"]))) != inj(json.loads(json.dumps(rs["outcome"]))):
                    v = {"klass": "injected-exception-fate-differs-from-cpython", "detail": {"model": rm["outcome"], "sut": rs["outcome"]}}
    return rs["ncalls"], v, od


def one_run(check, seed, i, cfg):
    """One run = one function: fault-free pass, then the full k-sweep, then seeded pairs."""
    mods = cfg["modules"]
    ms = mods[i % len(mods)]
    pair = load_pair(ms)
    fi = (i // len(mods)) % ms["nfuncs"]
    rng = core.rng_for(check, seed, i)
    res = {"probes": {}, "faults": {}, "n": 0, "nontrivial_digests": [], "steps": 0}
    n, v, od = check_case(ms, fi, {}, pair)
    res["n"] += 1
    plans = [{str(k): True} for k in range(min(n, cfg["kmax"]))]
    # directed pairs: a fault in the last call of a with body, then a second one in the truth test of what __exit__ returned
    log0 = list((LAST_SUT[0] or {}).get("log") or [])
    for j, name in enumerate(log0):
        if name == "exit" and j >= 1 and log0[j - 1] != "enter" and j < cfg["kmax"]:
            plans.append({str(j - 1): True, str(j + 1): True})
            res["probes"]["directed_pair_body_fault_then_exit_result_truth_test"] = res["probes"].get("directed_pair_body_fault_then_exit_result_truth_test", 0) + 1
    if n > cfg["kmax"]:
        res["probes"]["functions_with_truncated_sweep"] = 1
    if n >= 2:
        for _ in range(cfg["npairs"]):
            k1 = rng.randrange(n)
            plans.append({str(k1): True, str(k1 + rng.randint(1, 4)): True})
    if v is not None:
        res["violation"] = dict(v, func=fi, plan={}, module=ms["name"], src=ms["src"])
    for plan in plans:
        n2, v2, od2 = check_case(ms, fi, plan, pair)
        res["n"] += 1
        res["steps"] += n2
        res["faults"]["raise_at_kth_call"] = res["faults"].get("raise_at_kth_call", 0) + len(plan)
        if od2:
            res["probes"]["order_divergences_not_compared"] = res["probes"].get("order_divergences_not_compared", 0) + 1
        res["nontrivial_digests"].append(core.digest([ms["name"], fi, plan]))
        if v2 is not None and "violation" not in res:
            res["violation"] = dict(v2, func=fi, plan=plan, module=ms["name"], src=ms["src"])
    if F35_HITS[0]:
        res["probes"]["known_F35_refnanny_artefact_inplace_concat_on_closure_variable"] = F35_HITS[0]
        F35_HITS[0] = 0
    res["probes"]["functions_swept"] = 1
    if ms["handlers"][fi]:
        res["probes"]["functions_with_handler"] = 1
    if i % 60 == 0:
        res["sample"] = {"module": ms["name"], "func": fi, "fallible_calls": n, "plans": plans[:3]}
    return res


def refnanny_so():
    stage, _ = core.stage()
    with open(os.path.join(stage, "Cython", "Runtime", "refnanny.pyx")) as f:
        src = f.read()
    return build.build_ext("refnanny", src, ".pyx", cflags=("-O1",))


def build_modules(seed, nmods, nfuncs, tag, cflags=(), directives=None):
    rn = refnanny_so()
    specs, metas = [], []
    for m in range(nmods):
        rng = core.rng_for("C35-module", seed, m)
        src, handlers = gen_module(rng, nfuncs)
        name = "wl35_%s_%d_%d" % (tag, seed, m)
        specs.append({"name": name, "src": src, "ext": ".py", "cflags": ("-DCYTHON_REFNANNY=1",) + tuple(cflags), "directives": directives})
        metas.append({"name": name, "src": src, "nfuncs": nfuncs, "handlers": handlers, "refnanny": rn})
    sos = build.build_many(specs)
    out, errors = [], []
    for meta, so in zip(metas, sos):
        if isinstance(so, Exception):
            errors.append(str(so)[-800:])
            continue
        meta["so"] = so
        out.append(meta)
    return out, errors


def run_single(ms, fi, plan):
    pair = load_pair(ms)
    n, v, od = check_case(ms, fi, plan, pair)
    return v


def reduce_src(v):
    import re
    parts = re.split(r"\n\n\n(?=def f\d+\()", v["src"])
    parts[0] = parts[0][len(HEADER):] if parts[0].startswith(HEADER) else parts[0]
    keep = [p for p in parts if p.startswith("def f%d(" % v["func"])]
    if not keep:
        return v
    src2 = HEADER + keep[0].replace("def f%d(" % v["func"], "def f0(") + "\n"
    return dict(v, src=src2, func=0, module="wit35_%s" % core.digest(src2)[:8], has_handler="except Inj" in src2)


def replay(payload):
    core.stage()
    if payload.get("family") == "E11":
        from . import e11_pyx
        if any("-fsanitize" in c for c in payload.get("cflags") or ()):
            return e11_pyx.replay(payload, None, cflags=tuple(payload["cflags"]))       # crash-only replay of a C36 rider case
        return e11_pyx.replay(payload, "refs", cflags=("-DCYTHON_REFNANNY=1",), refnanny=refnanny_so())
    name = payload["module"] if payload["module"].startswith("wit35") else "wit35_" + core.digest(payload["src"])[:8]
    rn = refnanny_so()
    so = build.build_ext(name, payload["src"], ".py", cflags=("-DCYTHON_REFNANNY=1",) + tuple(payload.get("cflags", ())))
    nf = payload["func"] + 1
    ms = {"name": name, "src": payload["src"], "so": so, "nfuncs": nf, "refnanny": rn,
          "handlers": [payload.get("has_handler", "except Inj" in payload["src"] or "    with " in payload["src"])] * nf}
    if payload.get("raw"):
        os.environ["SIMKIT_RAW_REPLAY"] = "1"
    try:
        st, r = core.run_one_forked(run_single, ms, payload["func"], payload["plan"], timeout=60)
    finally:
        os.environ.pop("SIMKIT_RAW_REPLAY", None)
    print("replayed: %s %s" % (st, json.dumps(r)[:600] if r is not None else None))
    if payload.get("klass") == "crash":
        return st == "crash"
    return st == "crash" or (st == "ok" and r is not None)


def explore(rep, seed, tier, tag, cflags=(), budget=60, nmods=None, prop=None):
    nmods = nmods or (12 if tier == "quick" else 32)
    nfuncs = 30
    mods, errors = build_modules(seed, nmods, nfuncs, tag, cflags)
    for e in errors:
        rep.probes["workload_modules_not_built"] = rep.probes.get("workload_modules_not_built", 0) + 1
        sys.stderr.write("workload build failed (dropped): %s\n" % e[-600:])
    if not mods:
        rep.harness_errors.append("no workload module could be built: %s" % (errors[:1],))
        return [], mods, {}
    cfg = {"modules": mods, "kmax": 80, "npairs": 6 if tier == "quick" else 20, "case_timeout_s": 120}
    deadline = time.time() + budget
    total = len(mods) * nfuncs
    viol = []
    results = core.run_forked(one_run, prop or PROP, seed, range(total), cfg, deadline=deadline)
    for i, r in results:
        if "crash" in r:
            viol.append((i, {"klass": "crash", "detail": {"signal": r["crash"]}, "module": mods[i % len(mods)]["name"],
                             "src": mods[i % len(mods)]["src"], "func": (i // len(mods)) % nfuncs, "plan": None}))
            continue
        if "harness_error" in r:
            rep.harness_errors.append(r["harness_error"])
            continue
        rep.absorb(r)
        if "violation" in r:
            viol.append((i, r["violation"]))
    return viol, mods, cfg


def recover_crash_plan(ms, fi, cfg):
    st, r = core.run_one_forked(run_single, ms, fi, {}, timeout=30)
    if st == "crash":
        return {}
    for k in range(cfg["kmax"]):
        st, r = core.run_one_forked(run_single, ms, fi, {str(k): True}, timeout=30)
        if st == "crash":
            return {str(k): True}
    return None


def check(tier):
    seed = core.env_seed()
    core.stage()
    rep = core.Report(PROP, ENGINE, tier, seed, level="fault_enumeration")
    rep.rule = ("generated functions over chaos objects (operators, calls with positional/keyword/star arguments, displays, comprehensions, generator expressions, "
                "unpacking incl. starred, subscripts/slices, attribute access, augmented assignment, with, for over failing iterators, f-strings, conditional/boolean "
                "expressions, closures, try/except Inj, try/finally); per function: fault-free run counts N fallible special-method calls, then for EVERY k < N the k-th call "
                "raises Inj(k) (complete sweep, N <= 80), then seeded pairs (second fault during cleanup/handler). Invariants per run: refnanny silent, live chaos objects back "
                "to baseline, argument refcounts unchanged, no crash, Inj(k) propagates (handler-free functions) or result equals CPython's when call logs agree up to the fault. "
                "non-trivial = at least one fault in the plan; distinct = (module, function, plan) digest")
    rep.components = {"real": ["generated C error paths (error_goto, temp disposal)", "Cython/Runtime/refnanny.pyx built from the tree", "CYTHON_REFNANNY instrumentation in ModuleSetupCode.c"],
                      "stub": ["chaos objects: which special-method call fails is decided by the plan"]}
    rep.assumptions = ["runs whose special-method call order differs from CPython before the fault are not compared (evaluation order is C20's business), counted as order_divergences",
                       "allocation-failure injection is not used for alarms (CPython itself is not clean under it)",
                       "typed .pyx family (E11: cdef functions, cpdef, cdef classes, typed conversions) is swept with seeded single/multi fault plans, not the complete k-sweep; memoryview acquisition is not built"]
    budget = core.env_budget(70 if tier == "quick" else 900)
    viol, mods, cfg = explore(rep, seed, tier, "base", budget=budget * 0.75)
    # typed .pyx family (E11) under the same invariants (refnanny silent, live tracked objects back to baseline, no exception state
    # left behind, no crash): cdef functions with every exception specification, cpdef, cdef classes, typed conversions that fail
    from . import e11_pyx
    rn = refnanny_so()
    viol11, mods11, cfg11, _ = e11_pyx.explore(rep, PROP, seed, tier, "refs", "refs", cflags=("-DCYTHON_REFNANNY=1",), budget=budget * 0.25,
                                               nmods=3 if tier == "quick" else 8, refnanny=rn)
    modmap11 = {m["name"]: m for m in mods11}
    seen11 = set()
    for i, v in viol11:
        if v["klass"] == "crash" and v.get("func") is None:
            rec = e11_pyx.recover_crash(seed, i, cfg11, mods11, PROP, "refs")
            if rec is None:
                rep.harness_errors.append("E11 run %d crashed a worker but no single case reproduces it" % i)
                continue
            v["func"], v["arg"], v["plan"] = rec
        elif v.get("func") is not None:
            v.update(e11_pyx.minimise_plan(v, modmap11[v["module"]], "refs"))
        if v["klass"] in seen11:
            continue
        seen11.add(v["klass"])
        rep.violation("%s in typed .pyx workload (run %s): %s" % (v["klass"], i, json.dumps(v["detail"])[:300]), dict(v, seed=seed, run_index=i))
    if mods11:
        a11 = dict(core.run_forked(e11_pyx.one_run, PROP, seed, range(4), cfg11, jobs=2))
        b11 = dict(core.run_forked(e11_pyx.one_run, PROP, seed, range(4), cfg11, jobs=3))
        mism11 = sum(core.digest(a11[k]) != core.digest(b11[k]) for k in range(4))
        rep.extra["determinism_selfcheck_typed_pyx_family"] = {"seeds": 4, "mismatches": mism11}
        if mism11:
            rep.harness_errors.append("determinism self-check of the typed .pyx family failed")
    core.replay_known(PROP, replay, rep)
    if mods:
        a = dict(core.run_forked(one_run, PROP, seed, range(6), cfg, jobs=2))
        b = dict(core.run_forked(one_run, PROP, seed, range(6), cfg, jobs=3))
        mism = sum(core.digest(a[k]) != core.digest(b[k]) for k in range(6))
        rep.determinism = {"seeds": 6, "mismatches": mism}
        if mism:
            rep.harness_errors.append("determinism self-check failed")
    modmap = {m["name"]: m for m in mods}
    seen = set()
    for i, v in viol:
        if v["klass"] == "crash" and v.get("plan") is None:
            pl = recover_crash_plan(modmap[v["module"]], v["func"], cfg)
            if pl is None:
                rep.harness_errors.append("run %d crashed a worker but no single plan reproduces it" % i)
                continue
            v["plan"] = pl
        if v["klass"] in seen:
            continue
        seen.add(v["klass"])
        v = reduce_src(v)
        rep.violation("%s (run %s): %s" % (v["klass"], i, json.dumps(v["detail"])[:300]), dict(v, seed=seed, run_index=i))
    rep.extra["clock"] = "none"
    return rep.finish()
