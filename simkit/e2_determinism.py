"""E2 build-sim — C42.  Real cythonize(nthreads=W) with the process pool
replaced by a simulated pool: W real forks of the driver (as the real pool
makes) that receive the jobs in the assignment the seed dictates.  Seams
owned by the simulator: PYTHONHASHSEED of the build (exec'd servers), job ->
worker assignment, module order, sequential vs parallel, what was compiled
earlier in the same process (state leaking between compilations), heap
history of the server.  Oracle: every produced C file is byte-identical to
the canonical output = the module compiled alone, hash seed 0, fresh state.
"""
import base64
import hashlib
import json
import os
import pickle
import random
import shutil
import sys
import time

from . import core, hsrv

PROP = "C42"
ENGINE = "E2-build-sim"
HASHSEEDS = [0, 1, 2, 3, 17, 4242]


# --------------------------------------------------------------------------
# server side

class SimPool:
    """Stands in for concurrent.futures.ProcessPoolExecutor inside cythonize()."""
    plan = []       # worker index for the k-th job
    used = 0

    def __init__(self, max_workers=None, initializer=None, **kw):
        self.n = max_workers or 1
        self.initializer = initializer

    def __enter__(self):
        return self

    def __exit__(self, *a):
        return False

    def map(self, fn, tasks, chunksize=1):
        tasks = list(tasks)
        assign = {}
        for k, t in enumerate(tasks):
            w = SimPool.plan[k % len(SimPool.plan)] % self.n if SimPool.plan else k % self.n
            assign.setdefault(w, []).append(t)
        SimPool.used += 1
        # real pool workers are forks of the driver; each takes its jobs in queue order
        for w in sorted(assign):
            pid = os.fork()
            if pid == 0:
                code = 0
                try:
                    if self.initializer:
                        self.initializer()
                    for t in assign[w]:
                        fn(t)
                except BaseException:
                    code = 1
                os._exit(code)
            _, status = os.waitpid(pid, 0)
            if status != 0:
                raise RuntimeError("simulated pool worker %d failed" % w)
        return [None] * len(tasks)

    def shutdown(self, *a, **k):
        pass

    def terminate_workers(self):
        pass


def srv_build(modules, nthreads, plan, warmup):
    """cythonize(modules) in this process; with nthreads>0 through SimPool."""
    import concurrent.futures
    from Cython.Build import Dependencies as D
    err = None
    # optional warm-up compile of an unrelated module first: state leaking between compilations
    try:
        if warmup:
            D.cythonize([warmup], quiet=True, force=True)
        orig = concurrent.futures.ProcessPoolExecutor
        concurrent.futures.ProcessPoolExecutor = SimPool
        SimPool.plan = list(plan)
        SimPool.used = 0
        try:
            D.cythonize(list(modules), quiet=True, force=True, nthreads=int(nthreads))
        finally:
            concurrent.futures.ProcessPoolExecutor = orig
    except BaseException as e:
        if isinstance(e, (SystemExit, KeyboardInterrupt)):
            raise
        err = "%s: %s" % (type(e).__name__, str(e)[:200])
    return {"err": err, "pool_used": SimPool.used}


# --------------------------------------------------------------------------
# corpus

GEN_TEMPLATES = [
    "import sys, os\ncimport cython\n\ncdef class A:\n    cdef public int x\n    cdef dict d\n    def __init__(self, x):\n        self.x = x\n        self.d = {'a': 1, 'b': 2, 'c': x}\n    cpdef int get(self):\n        return self.x + %(v)d\n\ndef f(a, b=%(v)d, *args, **kw):\n    s = {a, b, 'x', 'y', 'z'}\n    return sorted(s), kw\n\ndef g():\n    yield from range(%(v)d)\n",
    "from libc.math cimport sqrt, sin, cos\nfrom libc.stdlib cimport malloc, free\n\ncdef extern from \"h_b_%(v)d.h\":\n    int xb\ncdef extern from \"h_a_%(v)d.h\":\n    int xa\ncdef extern from \"h_c.h\":\n    int xc\n\ncdef struct P:\n    double x\n    double y\n\ncdef double norm(P p) noexcept nogil:\n    return sqrt(p.x * p.x + p.y * p.y)\n\ndef n(x, y):\n    cdef P p\n    p.x = x; p.y = y\n    return norm(p) + %(v)d\n",
    "ctypedef fused num:\n    int\n    double\n    long long\n\ncpdef num add(num a, num b):\n    return a + b\n\ndef strs():\n    return ['alpha', 'beta', u'gamma', b'delta', 'k%(v)d', f'{1}-{2}']\n\nclass K(object):\n    a = 1\n    def m(self, *, kw=None):\n        return {'k': kw, 'j': %(v)d}\n\nasync def co(x):\n    return [i async for i in x]\n",
    # type zoo: the same C type declarations in every module built from this template (helpers generated per *type*
    # - cfunc-to-py wrappers, ctuple/struct/array conversions, memoryview slices, enum-to-py - are named after a type
    # identifier; any per-process memo of those names shows up when two such modules are compiled in one process)
    "cimport cython\n\ncdef struct Pt:\n    int x\n    double y\n\ncpdef enum Colour:\n    RED = 1\n    GREEN = %(v)d + 1\n\ncdef int cb(int a, double b):\n    return a + <int>b + %(v)d\n\ncdef (int, double) pair(int a):\n    return a, a * 0.5\n\ndef zoo(int n, double[:, ::1] mv, object o):\n    cdef Pt p = Pt(n, 2.0)\n    cdef int[4] arr = [1, 2, 3, n]\n    cdef (int, double) t = pair(n)\n    cdef object f = cb\n    cdef int[:] row = arr\n    cdef Pt q = o\n    return p, arr, t, f, mv[0, 0], row[1], q, Colour.RED, <Colour>n\n\ndef gz(list l):\n    cdef int i\n    return sum(i * %(v)d for i in l), (x for x in l)\n\ndef merges(a, b, A, B, h):\n    # star/double-star merges: each pulls in several utility-code helpers at once\n    return [*a, %(v)d, *b], (*a, *b), {*a, *b}, {**A, 'k': %(v)d, **B}, h(*a, %(v)d, *b, **A, k=1, **B)\n",
    # OpenMP sections: temporaries of a prange / parallel body are collected in a set and emitted as private() clauses and as a
    # cleanup block after the section
    "from cython.parallel cimport prange, parallel\n\ndef par(int n, object f, object g):\n    cdef int i\n    cdef long total = 0\n    for i in prange(n, nogil=True):\n        total += i * %(v)d\n        with gil:\n            f(i, g(i), str(i)); g(f(i), [i, i + 1], {'a': i, 'b': (i, %(v)d)})\n    return total\n\ndef par2(int n, object f):\n    cdef int i\n    cdef double acc = 0\n    with nogil, parallel():\n        for i in prange(n):\n            acc += i\n            with gil:\n                f(i)(f(i + 1), f(str(i)), k=f(%(v)d))\n    return acc\n",
    "import cython\n\n@cython.cclass\nclass B:\n    v: cython.int\n    def __init__(self):\n        self.v = %(v)d\n\n@cython.cfunc\ndef helper(a: cython.int, b: cython.double) -> cython.double:\n    return a * b\n\ndef lam():\n    return [lambda x, i=i: x + i for i in range(3)], {n: n*n for n in (1, 2, %(v)d)}\n",
]


def build_corpus(rng, d):
    """Write 3-6 modules into d; returns list of file names."""
    names = []
    k = rng.randint(3, 6)
    for j in range(k):
        t = rng.randrange(len(GEN_TEMPLATES))
        ext = ".py" if t == len(GEN_TEMPLATES) - 1 else ".pyx"
        n = "g%d_%d%s" % (j, t, ext)
        with open(os.path.join(d, n), "w") as f:
            f.write(GEN_TEMPLATES[t] % {"v": rng.randint(1, 5)})
        names.append(n)
    # headers for the extern template so cythonize records them as depends (order of a set of strings)
    for h in ("h_a_1.h", "h_a_2.h", "h_a_3.h", "h_a_4.h", "h_a_5.h", "h_b_1.h", "h_b_2.h", "h_b_3.h", "h_b_4.h", "h_b_5.h", "h_c.h"):
        with open(os.path.join(d, h), "w") as f:
            f.write("static int x%s;\n" % h[2])
    # real corpus files that compile standalone
    corp = corpus_files()
    for p in rng.sample(corp, min(len(corp), rng.randint(1, 3))):
        n = os.path.basename(p)
        shutil.copy(p, os.path.join(d, n))
        names.append(n)
    return names


_corpus = None


def corpus_files():
    global _corpus
    if _corpus is None:
        out = []
        for sub in ("tests/run", "Demos"):
            root = os.path.join(core.REPO, sub)
            try:
                ns = sorted(os.listdir(root))
            except OSError:
                continue
            for n in ns:
                p = os.path.join(root, n)
                if n.endswith(".pyx") and not n.startswith(("_cython_inline", "cpp_", "test_")) and os.path.isfile(p):
                    try:
                        sz = os.path.getsize(p)
                        with open(p, encoding="utf8", errors="replace") as f:
                            head = f.read(600)
                    except OSError:
                        continue
                    if 300 < sz < 6000 and "c++" not in head and "cpp" not in head and "# tag:" in head and "numpy" not in head and "# distutils" not in head:
                        out.append(p)
        _corpus = out[:120]
    return _corpus


def sha(p):
    with open(p, "rb") as f:
        return hashlib.sha256(f.read()).hexdigest()[:24]


def c_name(n):
    return os.path.splitext(n)[0] + ".c"


_canon_memo = {}


# --------------------------------------------------------------------------
# the "compiled with itself" cell: a second stage holding the compiler built by its own setup.py

def selfcompiled_dir():
    stage, th = core.stage()
    return os.path.join(core.workdir(), "selfc-" + th[:16])


def start_selfcompile():
    """Starts 'setup.py build_ext --inplace' of the staged tree in a scratch copy (returns Popen or None if already built)."""
    import subprocess
    d = selfcompiled_dir()
    if os.path.exists(os.path.join(d, ".built")):
        return None
    shutil.rmtree(d, ignore_errors=True)
    stage, _ = core.stage()
    shutil.copytree(stage, d)
    for f in ("setup.py", "README.rst", "CHANGES.rst"):
        src = os.path.join(core.REPO, f)
        if os.path.exists(src):
            shutil.copy(src, os.path.join(d, f))
    env = dict(os.environ, CFLAGS="-O0 -w", PYTHONPATH=d, PYTHONDONTWRITEBYTECODE="1")
    log = open(os.path.join(d, "selfcompile.log"), "w")
    return subprocess.Popen([sys.executable, "setup.py", "build_ext", "--inplace", "-j", "8"], cwd=d, env=env, stdout=log, stderr=subprocess.STDOUT)


def finish_selfcompile(proc, timeout):
    """-> stage dir of the self-compiled compiler, or None (with reason) if it could not be built in time."""
    d = selfcompiled_dir()
    if proc is not None:
        try:
            rc = proc.wait(timeout=max(1, timeout))
        except Exception:
            proc.kill()
            return None, "self-compilation did not finish within the budget"
        if rc != 0:
            try:
                tail = open(os.path.join(d, "selfcompile.log"), errors="replace").read()[-400:]
            except OSError:
                tail = ""
            return None, "setup.py build_ext failed (exit %s): %s" % (rc, tail)
        with open(os.path.join(d, ".built"), "w") as f:
            f.write("ok")
    nso = sum(1 for _, _, fs in os.walk(os.path.join(d, "Cython")) for f in fs if f.endswith(".so"))
    if nso < 10:
        return None, "only %d compiled modules found" % nso
    return d, "%d compiled compiler modules" % nso


def one_run(check, seed, i, cfg, case=None):
    rng = core.rng_for(check, seed, i)
    stage, _ = core.stage()
    rundir = os.path.join(core.workdir(), "e2d", "r%d-%d-%d" % (os.getpid(), seed, i))
    shutil.rmtree(rundir, ignore_errors=True)
    src = os.path.join(rundir, "src")
    os.makedirs(src)
    res = {"probes": {}, "faults": {}, "steps": 0}
    try:
        if case is None:
            names = build_corpus(rng, src)
            order = rng.sample(names, len(names))
            W = rng.choice([0, 0, 2, 2, 3])
            # consecutive runs share a hash seed so a worker reuses its exec'd server (spawning is the dominant cost)
            case = {"hashseed": HASHSEEDS[1 + (i // 5) % (len(HASHSEEDS) - 1)], "order": order, "nthreads": W,
                    "plan": [rng.randrange(3) for _ in range(len(names))],
                    "warmup": rng.random() < 0.3, "files": {}, "selfcompiled": bool((cfg or {}).get("force_selfcompiled"))}
            for n in sorted(os.listdir(src)):
                with open(os.path.join(src, n), encoding="utf8", errors="surrogateescape") as f:
                    case["files"][n] = f.read()
        else:
            for n, t in case["files"].items():
                with open(os.path.join(src, n), "w", encoding="utf8", errors="surrogateescape") as f:
                    f.write(t)
        names = [n for n in case["order"]]
        # canonical: each module alone, hash seed 0, fresh state, in its own copy of the sources
        canon = {}
        s0 = hsrv.get(0, stage, core.VERIF)
        for n in names:
            key = hashlib.sha256(case["files"][n].encode("utf8", "surrogateescape")).hexdigest() + n
            memo_file = os.path.join(core.workdir(), "e2d-canon", hashlib.sha256(key.encode()).hexdigest()[:40])
            if key not in _canon_memo and os.path.exists(memo_file):
                with open(memo_file) as f:
                    _canon_memo[key] = f.read().strip() or None
            if key in _canon_memo:
                canon[n] = _canon_memo[key]
                continue
            d = os.path.join(rundir, "canon")
            shutil.rmtree(d, ignore_errors=True)
            shutil.copytree(src, d)
            r = s0.call("simkit.e2_determinism", "srv_build", [[n], 0, [], None], cwd=d)
            if "ok" not in r:
                raise core.HarnessError("canonical server: %r" % (r,))
            cp = os.path.join(d, c_name(n))
            canon[n] = sha(cp) if (r["ok"]["err"] is None and os.path.exists(cp)) else None
            _canon_memo[key] = canon[n]
            os.makedirs(os.path.dirname(memo_file), exist_ok=True)
            with open(memo_file + ".%d" % os.getpid(), "w") as f:
                f.write(canon[n] or "")
            os.replace(memo_file + ".%d" % os.getpid(), memo_file)
        usable = [n for n in names if canon[n]]
        res["probes"]["modules_not_compilable_standalone"] = len(names) - len(usable)
        if len(usable) < 2:
            res["digest"] = core.digest(["unusable", i])
            return res
        # the simulated build
        d = os.path.join(rundir, "build")
        shutil.copytree(src, d)
        if case.get("selfcompiled"):
            sc_stage = (cfg or {}).get("selfcompiled_stage") or finish_selfcompile(start_selfcompile(), 1500)[0]
            if not sc_stage:
                raise core.HarnessError("self-compiled compiler not available for this case")
            sv = hsrv.get(case["hashseed"], sc_stage, core.VERIF)
            res["probes"]["builds_by_selfcompiled_compiler"] = 1
        else:
            sv = hsrv.get(case["hashseed"], stage, core.VERIF)
        warm = None
        if case["warmup"]:
            with open(os.path.join(d, "zz_warm.pyx"), "w") as f:
                f.write("cdef class W:\n    cdef int q\ndef w(a, b):\n    return {a: b}\n")
            warm = "zz_warm.pyx"
        r = sv.call("simkit.e2_determinism", "srv_build", [usable, case["nthreads"], case["plan"], warm], cwd=d)
        if "ok" not in r:
            raise core.HarnessError("build server: %r" % (r,))
        if r["ok"]["err"]:
            # a workload module that fails to build inside a list is C43's business: recorded, run dropped
            res["probes"]["build_failed_run_dropped"] = 1
            res["digest"] = core.digest(["build-failed", i])
            return res
        res["steps"] = len(usable)
        res["probes"]["builds_parallel" if case["nthreads"] and r["ok"]["pool_used"] else "builds_sequential"] = 1
        res["probes"]["hashseed_%d" % case["hashseed"]] = 1
        if case["warmup"]:
            res["probes"]["warmup_state_leak_builds"] = 1
        diffs = []
        for n in usable:
            cp = os.path.join(d, c_name(n))
            got = sha(cp) if os.path.exists(cp) else None
            if got != canon[n]:
                diffs.append(n)
        log = {"order": usable, "nthreads": case["nthreads"], "plan": case["plan"][:len(usable)], "hashseed": case["hashseed"],
               "warmup": case["warmup"], "canon": [canon[n] for n in usable], "selfcompiled": bool(case.get("selfcompiled"))}
        res["digest"] = core.digest(log)
        res["nontrivial"] = True
        if diffs:
            n = diffs[0]
            detail = first_diff(os.path.join(rundir, "canon_keep"), src, n, os.path.join(d, c_name(n)), s0)
            res["violation"] = {"klass": "output-differs-from-canonical", "detail": "%s: %s" % (n, detail), "modules": diffs, "case": case}
        if i % 37 == 0:
            res["sample"] = {k: case[k] for k in ("hashseed", "order", "nthreads", "plan", "warmup")}
    finally:
        shutil.rmtree(rundir, ignore_errors=True)
    return res


def first_diff(tmpd, src, n, built_c, s0):
    shutil.rmtree(tmpd, ignore_errors=True)
    shutil.copytree(src, tmpd)
    s0.call("simkit.e2_determinism", "srv_build", [[n], 0, [], None], cwd=tmpd)
    try:
        a = open(os.path.join(tmpd, c_name(n)), errors="replace").read().splitlines()
        b = open(built_c, errors="replace").read().splitlines()
    except OSError as e:
        return "missing output (%s)" % e
    for k, (x, y) in enumerate(zip(a, b)):
        if x != y:
            return "first differing C line %d: canonical %r vs build %r" % (k + 1, x[:160], y[:160])
    return "length differs: %d vs %d lines" % (len(a), len(b))


def replay(payload):
    core.stage()
    r = one_run(PROP, 0, 0, None, case=payload["case"])
    v = r.get("violation")
    print("replayed: %s" % (v["detail"] if v else "no violation"))
    return bool(v) and v["klass"] == payload.get("klass")


def minimise(v):
    case = v["case"]
    deadline = time.time() + 90

    def fails(c):
        if time.time() > deadline:
            return False
        try:
            r = one_run(PROP, 0, 0, None, case=c)
        except Exception:
            return False
        return "violation" in r
    # prefer: sequential, no warmup, only the differing modules
    for cand in (dict(case, order=[m for m in case["order"] if m in v["modules"]][:1] + [m for m in case["order"] if m not in v["modules"]][:1]),
                 dict(case, warmup=False), dict(case, nthreads=0)):
        if len(cand["order"]) >= 2 and fails(cand):
            case = cand
    r = one_run(PROP, 0, 0, None, case=case)
    if "violation" in r:
        keep = set(case["order"]) | {n for n in case["files"] if n.endswith(".h")}
        case = dict(case, files={n: t for n, t in case["files"].items() if n in keep}, minimised=True)
        r2 = one_run(PROP, 0, 0, None, case=case)
        if "violation" in r2:
            return dict(r2["violation"], case=case)
        return r["violation"]
    return v


def check(tier):
    seed = core.env_seed()
    core.stage()
    rep = core.Report(PROP, ENGINE, tier, seed)
    rep.rule = ("builds of 4-9 modules (generated templates: cdef classes, sets/dicts of strings, fused types, extern headers, pure-python mode; plus "
                "tests/run and Demos files that compile standalone) through the real cythonize(force=True, nthreads=W) in an exec'd server with PYTHONHASHSEED in "
                "{1,2,3,17,4242} (under setarch -R), seeded module order, W in {0,2,3} with the process pool replaced by SimPool (real forks of the driver, "
                "seeded job->worker assignment), optional unrelated warm-up compile in the same process. Every produced .c must equal the canonical output "
                "(module alone, hash seed 0, fresh state). every run is non-trivial (hash seed != 0 and order/assignment chosen by the seed); distinct = digest of "
                "(order, W, plan, hashseed, warmup, canonical hashes)")
    rep.components = {"real": ["Cython/Build/Dependencies.py cythonize / create_extension_list / cythonize_one", "the whole compiler", "real fork()ed pool workers",
                               "real interpreters with the chosen PYTHONHASHSEED"],
                      "stub": ["concurrent.futures.ProcessPoolExecutor -> SimPool (who gets which job)", "ASLR disabled via setarch -R"]}
    rep.assumptions = ["the 'compiled with itself' cell builds the staged tree with its own setup.py (CFLAGS=-O0) in a scratch copy while the main batch runs and then repeats a smaller batch of builds through it (6 quick / 160 thorough); if it cannot be built within the budget the evidence says so (probe selfcompiled_cell_not_run)",
                       "SimPool runs workers one after the other: pool workers share nothing but the file system, so their relative timing cannot matter"]
    budget = core.env_budget(45 if tier == "quick" else 900)
    deadline = time.time() + budget
    cfg = {"case_timeout_s": 900}
    sc_proc = start_selfcompile()       # builds in the background (about 1.5 min) while the main batch runs
    n = 48 if tier == "quick" else 10 ** 8
    batch = 48 if tier == "quick" else 800
    start, viol = 0, []
    while start < n and time.time() < deadline - 15:
        results = core.run_batch(one_run, PROP, seed, range(start, min(n, start + batch)), cfg, chunk=5, deadline=deadline)
        for i, r in results:
            if "harness_error" in r:
                rep.harness_errors.append(r["harness_error"])
                continue
            rep.absorb(r)
            if "violation" in r:
                viol.append((i, r["violation"]))
        start += batch
        if viol:
            break
    # the "compiled with itself" cell: the same kind of builds through a server that imports the self-compiled compiler
    sc_stage, sc_note = finish_selfcompile(sc_proc, 240 if tier == "quick" else 900)
    rep.extra["selfcompiled_compiler"] = sc_note
    if sc_stage and not viol:
        cfg_sc = dict(cfg, selfcompiled_stage=sc_stage, force_selfcompiled=True)
        nsc = 6 if tier == "quick" else 160
        for i, r in core.run_batch(one_run, PROP, seed, range(10 ** 6, 10 ** 6 + nsc), cfg_sc, chunk=4, deadline=time.time() + (60 if tier == "quick" else budget * 0.3)):
            if "harness_error" in r:
                rep.harness_errors.append(r["harness_error"])
                continue
            rep.absorb(r)
            if "violation" in r:
                viol.append((i, r["violation"]))
    elif not sc_stage:
        rep.probes["selfcompiled_cell_not_run"] = 1
    core.replay_known(PROP, replay, rep)
    chk = [0, 1]
    a = dict(core.run_batch(one_run, PROP, seed, chk, cfg, jobs=1, chunk=4))
    b = dict(core.run_batch(one_run, PROP, seed, chk, cfg, jobs=2, chunk=2))
    mism = sum(a[k].get("digest") != b[k].get("digest") for k in chk)
    rep.determinism = {"seeds": len(chk), "mismatches": mism}
    if mism:
        rep.harness_errors.append("determinism self-check failed")
    seen = set()
    for i, v in viol:
        if v["klass"] in seen:
            continue
        seen.add(v["klass"])
        v = minimise(v)
        rep.violation("%s: %s (run %s)" % (v["klass"], v["detail"], i), dict(v, seed=seed, run_index=i))
    for s in list(hsrv._servers.values()):
        s.close()
    rep.extra["clock"] = "none"
    return rep.finish()
