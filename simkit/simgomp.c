/* simgomp — deterministic replacement for the part of libgomp that GCC emits
 * calls to for Cython's prange/parallel code.  Team threads are real
 * pthreads, but only the holder of the baton runs; the baton moves at every
 * GOMP entry point, at sim_yield() calls placed in workload bodies, and
 * around GIL transitions (ld --wrap of PyGILState_Ensure/Release).  The next
 * runner is drawn from a splitmix64 stream seeded per run, so one seed is one
 * exactly repeatable interleaving (sequentially consistent by construction).
 */
#define _GNU_SOURCE
#include <pthread.h>
#include <stdint.h>
#include <stdio.h>
#include <stdlib.h>
#include <string.h>
#include <stdbool.h>
#include <Python.h>

#define MAXT 16
#define MAXWS 64
#define LOGCAP 65536

enum { ST_RUN = 0, ST_BARRIER, ST_CRIT, ST_DONE, ST_JOIN };

typedef struct {
    int active;            /* initialised by the first thread that arrives */
    long long start, end, incr, chunk, cursor;
    int kind;              /* 0 dynamic, 1 guided */
    int left;              /* threads that have not left yet */
} workshare;

typedef struct {
    pthread_t th;
    pthread_cond_t cv;
    int state;
    int ws_ord;            /* how many work-share constructs this thread has entered */
    void (*fn)(void *);
    void *data;
    void *waiting_for;     /* critical section name */
} sim_thread;

static pthread_mutex_t mu = PTHREAD_MUTEX_INITIALIZER;
static sim_thread T[MAXT];
static int team_n = 0;          /* 0: no team active */
static int current = 0;
static int barrier_arrived = 0;
static workshare WS[MAXWS];
static void *crit_held[MAXT];   /* names of held critical sections */
static int ncrit = 0;

static __thread int my_id = 0;
static __thread int in_team = 0;
static __thread int gil_depth = 0;

/* --- per-run state, visible to the harness ------------------------------ */
static uint64_t rng_state = 1;
static uint64_t sched_digest = 1469598103934665603ULL;
static long long stat_steps = 0, stat_switches = 0, stat_barriers = 0, stat_chunks = 0, stat_crit_blocks = 0, stat_teams = 0, stat_gil = 0;
static long long step_budget = 2000000;
static int default_threads = 4;
static int runtime_kind = 0;       /* schedule(runtime): 0 dynamic, 1 guided */
static long long runtime_chunk = 1;
static int policy = 0;             /* 0 uniform random, 1 run-until-blocked (coarse), 2 round robin */
static long long logbuf[LOGCAP][3];
static int lognum = 0;
static int failed = 0;             /* 1 deadlock, 2 step budget */

static uint64_t splitmix(void) {
    uint64_t z = (rng_state += 0x9E3779B97F4A7C15ULL);
    z = (z ^ (z >> 30)) * 0xBF58476D1CE4E5B9ULL;
    z = (z ^ (z >> 27)) * 0x94D049BB133111EBULL;
    return z ^ (z >> 31);
}

static void dig(uint64_t v) {
    sched_digest ^= v;
    sched_digest *= 1099511628211ULL;
}

void simgomp_reset(uint64_t seed, int nthreads_default, int pol, long long budget) {
    rng_state = seed * 2 + 1;
    sched_digest = 1469598103934665603ULL;
    stat_steps = stat_switches = stat_barriers = stat_chunks = stat_crit_blocks = stat_teams = stat_gil = 0;
    default_threads = nthreads_default > 0 ? nthreads_default : 4;
    policy = pol;
    step_budget = budget > 0 ? budget : 2000000;
    lognum = 0;
    failed = 0;
    uint64_t r = splitmix();
    runtime_kind = (int)(r & 1);
    runtime_chunk = 1 + (long long)((r >> 8) % 4);
}

uint64_t simgomp_digest(void) { return sched_digest; }
int simgomp_failed(void) { return failed; }
void simgomp_stats(long long *out) {
    out[0] = stat_steps; out[1] = stat_switches; out[2] = stat_barriers; out[3] = stat_chunks;
    out[4] = stat_crit_blocks; out[5] = stat_teams; out[6] = stat_gil; out[7] = lognum;
}
int simgomp_log(long long *out, int cap) {
    int n = lognum < cap ? lognum : cap;
    memcpy(out, logbuf, sizeof(long long) * 3 * n);
    return n;
}

/* workload-visible: record an event (single runner => no race) */
void sim_rec(long long tag, long long value) {
    if (lognum < LOGCAP) {
        logbuf[lognum][0] = tag; logbuf[lognum][1] = value; logbuf[lognum][2] = in_team ? my_id : -1;
        lognum++;
    }
}

static void die(const char *why, int code) {
    failed = code;
    fprintf(stderr, "SIMGOMP-FAILURE: %s (steps=%lld)\n", why, stat_steps);
    fflush(stderr);
    _exit(70 + code);
}

/* choose the next runner among runnable threads; mu held */
static int pick_next(int allow_self) {
    int cand[MAXT], n = 0;
    for (int i = 0; i < team_n; i++)
        if (T[i].state == ST_RUN && (allow_self || i != my_id)) cand[n++] = i;
    if (n == 0) return -1;
    if (policy == 1 && allow_self && T[my_id].state == ST_RUN && (splitmix() % 8) != 0) return my_id;
    if (policy == 2) {
        for (int k = 1; k <= team_n; k++) {
            int i = (my_id + k) % team_n;
            if (T[i].state == ST_RUN && (allow_self || i != my_id)) return i;
        }
    }
    return cand[splitmix() % (uint64_t)n];
}

/* hand the baton to `next` and sleep until it comes back; mu held */
static void switch_to(int next) {
    if (next == my_id) return;
    stat_switches++;
    dig(0x100 + (uint64_t)next);
    current = next;
    pthread_cond_signal(&T[next].cv);
    while (current != my_id)
        pthread_cond_wait(&T[my_id].cv, &mu);
}

static void step(void) {
    if (++stat_steps > step_budget) die("step budget exceeded (no progress / livelock)", 2);
}

static void yield_point(uint64_t what) {
    if (!in_team || team_n <= 1 || gil_depth > 0) return;
    pthread_mutex_lock(&mu);
    step();
    dig(what * 31 + (uint64_t)my_id);
    int next = pick_next(1);
    if (next < 0) die("no runnable thread at a yield point", 1);
    switch_to(next);
    pthread_mutex_unlock(&mu);
}

/* block the calling thread in `state` until someone makes it runnable again; mu held */
static void block_and_switch(void) {
    int next = pick_next(0);
    if (next < 0) die("deadlock: every team thread is blocked", 1);
    switch_to(next);
}

void sim_yield(void) { yield_point(1); }

/* ------------------------------------------------------------------------ */
int omp_get_thread_num(void) { return in_team ? my_id : 0; }
int omp_get_num_threads(void) { return in_team ? team_n : 1; }
int omp_get_max_threads(void) { return default_threads; }
int omp_in_parallel(void) { return in_team; }
int omp_get_num_procs(void) { return default_threads; }
void omp_set_num_threads(int n) { if (n > 0) default_threads = n; }

static void *worker_main(void *arg) {
    int id = (int)(intptr_t)arg;
    my_id = id;
    in_team = 1;
    gil_depth = 0;
    pthread_mutex_lock(&mu);
    while (current != id)
        pthread_cond_wait(&T[id].cv, &mu);
    pthread_mutex_unlock(&mu);
    T[id].fn(T[id].data);
    pthread_mutex_lock(&mu);
    T[id].state = ST_DONE;
    dig(0x900 + (uint64_t)id);
    int next = pick_next(0);
    if (next < 0) {
        /* nobody runnable: the master must be joining */
        if (T[0].state == ST_JOIN) { T[0].state = ST_RUN; next = 0; }
        else die("deadlock after a worker finished", 1);
    }
    stat_switches++;
    current = next;
    pthread_cond_signal(&T[next].cv);
    pthread_mutex_unlock(&mu);
    return NULL;
}

void GOMP_parallel(void (*fn)(void *), void *data, unsigned num_threads, unsigned flags) {
    (void)flags;
    if (in_team) {          /* nested parallelism disabled: serialise */
        fn(data);
        return;
    }
    int n = num_threads ? (int)num_threads : default_threads;
    if (n > MAXT) n = MAXT;
    if (n < 1) n = 1;
    pthread_mutex_lock(&mu);
    stat_teams++;
    team_n = n;
    barrier_arrived = 0;
    ncrit = 0;
    memset(WS, 0, sizeof(WS));
    for (int i = 0; i < n; i++) {
        T[i].state = ST_RUN;
        T[i].ws_ord = 0;
        T[i].fn = fn;
        T[i].data = data;
        T[i].waiting_for = NULL;
        pthread_cond_init(&T[i].cv, NULL);
    }
    my_id = 0;
    in_team = 1;
    current = 0;
    for (int i = 1; i < n; i++)
        pthread_create(&T[i].th, NULL, worker_main, (void *)(intptr_t)i);
    pthread_mutex_unlock(&mu);

    yield_point(2);        /* who starts is already a scheduling decision */
    fn(data);

    pthread_mutex_lock(&mu);
    for (;;) {
        int alive = 0;
        for (int i = 1; i < n; i++) if (T[i].state != ST_DONE) alive++;
        if (!alive) break;
        T[0].state = ST_JOIN;
        int next = pick_next(0);
        if (next < 0) die("deadlock at team join: workers blocked forever", 1);
        switch_to(next);
        T[0].state = ST_RUN;
    }
    pthread_mutex_unlock(&mu);
    for (int i = 1; i < n; i++) pthread_join(T[i].th, NULL);
    pthread_mutex_lock(&mu);
    team_n = 0;
    in_team = 0;
    my_id = 0;
    pthread_mutex_unlock(&mu);
}

void GOMP_barrier(void) {
    if (!in_team || team_n <= 1) return;
    pthread_mutex_lock(&mu);
    step();
    stat_barriers++;
    dig(0x200 + (uint64_t)my_id);
    barrier_arrived++;
    int need = 0;
    for (int i = 0; i < team_n; i++) if (T[i].state != ST_DONE) need++;
    if (barrier_arrived >= need) {
        barrier_arrived = 0;
        for (int i = 0; i < team_n; i++) if (T[i].state == ST_BARRIER) T[i].state = ST_RUN;
        int next = pick_next(1);
        switch_to(next);
    } else {
        T[my_id].state = ST_BARRIER;
        block_and_switch();
    }
    pthread_mutex_unlock(&mu);
}

static int crit_is_held(void *name) {
    for (int i = 0; i < ncrit; i++) if (crit_held[i] == name) return 1;
    return 0;
}

static void crit_enter(void *name) {
    if (!in_team || team_n <= 1) return;
    pthread_mutex_lock(&mu);
    step();
    dig(0x300 + (uint64_t)my_id);
    /* arriving at a critical section is a scheduling point */
    if (gil_depth == 0) { int next = pick_next(1); switch_to(next); }
    while (crit_is_held(name)) {
        if (gil_depth > 0) die("critical section contended while holding the GIL", 1);
        stat_crit_blocks++;
        T[my_id].state = ST_CRIT;
        T[my_id].waiting_for = name;
        block_and_switch();
    }
    crit_held[ncrit++] = name;
    pthread_mutex_unlock(&mu);
}

static void crit_leave(void *name) {
    if (!in_team || team_n <= 1) return;
    pthread_mutex_lock(&mu);
    step();
    for (int i = 0; i < ncrit; i++) if (crit_held[i] == name) { crit_held[i] = crit_held[--ncrit]; break; }
    for (int i = 0; i < team_n; i++)
        if (T[i].state == ST_CRIT && T[i].waiting_for == name) { T[i].state = ST_RUN; T[i].waiting_for = NULL; }
    if (gil_depth == 0) { int next = pick_next(1); switch_to(next); }
    pthread_mutex_unlock(&mu);
}

static char unnamed_crit;
void GOMP_critical_start(void) { crit_enter(&unnamed_crit); }
void GOMP_critical_end(void) { crit_leave(&unnamed_crit); }
void GOMP_critical_name_start(void **pptr) { crit_enter((void *)pptr); }
void GOMP_critical_name_end(void **pptr) { crit_leave((void *)pptr); }
static char atomic_crit;
void GOMP_atomic_start(void) { crit_enter(&atomic_crit); }
void GOMP_atomic_end(void) { crit_leave(&atomic_crit); }

/* --- work sharing --------------------------------------------------------- */
static workshare *ws_enter(long long start, long long end, long long incr, long long chunk, int kind) {
    int ord = T[my_id].ws_ord % MAXWS;
    workshare *w = &WS[ord];
    if (!w->active) {
        w->active = 1;
        w->start = start; w->end = end; w->incr = incr; w->chunk = chunk > 0 ? chunk : 1;
        w->cursor = start; w->kind = kind; w->left = team_n > 0 ? team_n : 1;
    }
    return w;
}

static bool ws_next(workshare *w, long long *istart, long long *iend) {
    long long remaining;
    if (w->incr > 0) remaining = w->cursor < w->end ? (w->end - w->cursor + w->incr - 1) / w->incr : 0;
    else remaining = w->cursor > w->end ? (w->cursor - w->end + (-w->incr) - 1) / (-w->incr) : 0;
    if (remaining <= 0) return false;
    long long n = w->chunk;
    if (w->kind == 1) {        /* guided: proportional to what is left, at least chunk */
        long long g = remaining / (team_n > 0 ? team_n : 1);
        if (g > n) n = g;
    }
    if (n > remaining) n = remaining;
    *istart = w->cursor;
    *iend = w->cursor + n * w->incr;
    w->cursor = *iend;
    stat_chunks++;
    dig(0x400 + (uint64_t)my_id * 131 + (uint64_t)(*istart & 0xffff));
    return true;
}

static bool loop_start(long long start, long long end, long long incr, long long chunk, int kind, long long *istart, long long *iend) {
    if (!in_team) {        /* orphaned construct: one thread does everything */
        if ((incr > 0 && start >= end) || (incr < 0 && start <= end)) return false;
        *istart = start; *iend = end; return true;
    }
    yield_point(3);
    pthread_mutex_lock(&mu);
    workshare *w = ws_enter(start, end, incr, chunk, kind);
    bool r = ws_next(w, istart, iend);
    pthread_mutex_unlock(&mu);
    return r;
}

static bool loop_next(long long *istart, long long *iend) {
    if (!in_team) return false;
    yield_point(4);
    pthread_mutex_lock(&mu);
    workshare *w = &WS[T[my_id].ws_ord % MAXWS];
    bool r = ws_next(w, istart, iend);
    pthread_mutex_unlock(&mu);
    return r;
}

static void loop_leave(void) {
    if (!in_team) return;
    pthread_mutex_lock(&mu);
    workshare *w = &WS[T[my_id].ws_ord % MAXWS];
    if (w->active && --w->left <= 0) memset(w, 0, sizeof(*w));
    T[my_id].ws_ord++;
    pthread_mutex_unlock(&mu);
    yield_point(5);
}

void GOMP_loop_end_nowait(void) { loop_leave(); }
void GOMP_loop_end(void) { loop_leave(); GOMP_barrier(); }
bool GOMP_loop_end_cancel(void) { loop_leave(); GOMP_barrier(); return false; }

#define LONG_LOOP(NAME, KIND, HAS_CHUNK) \
bool NAME##_start(long start, long end, long incr HAS_CHUNK(long chunk), long *istart, long *iend) { \
    long long a, b; bool r = loop_start(start, end, incr, CHUNKVAL_##KIND, KINDVAL_##KIND, &a, &b); \
    if (r) { *istart = (long)a; *iend = (long)b; } return r; } \
bool NAME##_next(long *istart, long *iend) { \
    long long a, b; bool r = loop_next(&a, &b); if (r) { *istart = (long)a; *iend = (long)b; } return r; }

#define WITH_CHUNK(x) , x
#define NO_CHUNK(x)
#define CHUNKVAL_dynamic chunk
#define CHUNKVAL_guided chunk
#define CHUNKVAL_runtime runtime_chunk
#define KINDVAL_dynamic 0
#define KINDVAL_guided 1
#define KINDVAL_runtime runtime_kind

LONG_LOOP(GOMP_loop_dynamic, dynamic, WITH_CHUNK)
LONG_LOOP(GOMP_loop_nonmonotonic_dynamic, dynamic, WITH_CHUNK)
LONG_LOOP(GOMP_loop_guided, guided, WITH_CHUNK)
LONG_LOOP(GOMP_loop_nonmonotonic_guided, guided, WITH_CHUNK)
LONG_LOOP(GOMP_loop_runtime, runtime, NO_CHUNK)
LONG_LOOP(GOMP_loop_nonmonotonic_runtime, runtime, NO_CHUNK)
LONG_LOOP(GOMP_loop_maybe_nonmonotonic_runtime, runtime, NO_CHUNK)

/* unsigned long long index variants: `up` tells the direction, incr is two's complement */
#define ULL_LOOP(NAME, KIND, HAS_CHUNK) \
bool NAME##_start(bool up, unsigned long long start, unsigned long long end, unsigned long long incr HAS_CHUNK(unsigned long long chunk), \
                  unsigned long long *istart, unsigned long long *iend) { \
    (void)up; long long a, b; bool r = loop_start((long long)start, (long long)end, (long long)incr, (long long)CHUNKVAL_##KIND, KINDVAL_##KIND, &a, &b); \
    if (r) { *istart = (unsigned long long)a; *iend = (unsigned long long)b; } return r; } \
bool NAME##_next(unsigned long long *istart, unsigned long long *iend) { \
    long long a, b; bool r = loop_next(&a, &b); if (r) { *istart = (unsigned long long)a; *iend = (unsigned long long)b; } return r; }

ULL_LOOP(GOMP_loop_ull_dynamic, dynamic, WITH_CHUNK)
ULL_LOOP(GOMP_loop_ull_nonmonotonic_dynamic, dynamic, WITH_CHUNK)
ULL_LOOP(GOMP_loop_ull_guided, guided, WITH_CHUNK)
ULL_LOOP(GOMP_loop_ull_nonmonotonic_guided, guided, WITH_CHUNK)
ULL_LOOP(GOMP_loop_ull_runtime, runtime, NO_CHUNK)
ULL_LOOP(GOMP_loop_ull_nonmonotonic_runtime, runtime, NO_CHUNK)
ULL_LOOP(GOMP_loop_ull_maybe_nonmonotonic_runtime, runtime, NO_CHUNK)

/* --- GIL transitions: yield points strictly OUTSIDE the GIL-held section ----
 * gil_depth > 0 means "this thread holds the GIL right now".  Cython's parallel sections do
 * PyGILState_Ensure(); Py_BEGIN_ALLOW_THREADS ... Py_END_ALLOW_THREADS; PyGILState_Release(),
 * so SaveThread/RestoreThread must be tracked as well. */
static __thread int saved_depth[8];
static __thread int saved_n = 0;

PyGILState_STATE __wrap_PyGILState_Ensure(void) {
    if (in_team && gil_depth == 0) yield_point(6);
    PyGILState_STATE s = PyGILState_Ensure();
    gil_depth++;
    stat_gil++;
    return s;
}

void __wrap_PyGILState_Release(PyGILState_STATE s) {
    PyGILState_Release(s);
    if (gil_depth > 0) gil_depth--;
    if (in_team && gil_depth == 0) yield_point(7);
}

PyThreadState *__wrap_PyEval_SaveThread(void) {
    PyThreadState *ts = PyEval_SaveThread();
    if (saved_n < 8) saved_depth[saved_n++] = gil_depth;
    gil_depth = 0;
    if (in_team) yield_point(8);
    return ts;
}

void __wrap_PyEval_RestoreThread(PyThreadState *ts) {
    if (in_team && gil_depth == 0) yield_point(9);
    PyEval_RestoreThread(ts);
    gil_depth = saved_n > 0 ? saved_depth[--saved_n] : 1;
}
