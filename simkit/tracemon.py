"""Event-stream monitor for C45: checks, while a simulated run proceeds, that
profile/trace events of compiled functions are balanced and well nested."""
import ast
import os
import sys


def function_spans(src):
    """name -> (first line, last line) of every def in the source"""
    spans = {}
    for node in ast.walk(ast.parse(src)):
        if isinstance(node, (ast.FunctionDef, ast.AsyncFunctionDef)):
            spans[node.name] = (node.lineno, node.end_lineno)
    return spans


def funcs_returning_inside_try_finally(src):
    """Names of functions that contain a 'return' lexically inside a try statement that has a finally clause, or inside a
    with block (known finding F19: compiled code emits the return event at the return statement, before the finally
    clause / __exit__ runs)."""
    out = set()

    def walk(node, fname, guarded):
        if isinstance(node, (ast.FunctionDef, ast.AsyncFunctionDef)):
            for ch in node.body:
                walk(ch, node.name, False)
            return
        if isinstance(node, ast.Return):
            if guarded and fname:
                out.add(fname)
            return
        if isinstance(node, ast.Try) and node.finalbody:
            for ch in node.body + node.handlers + node.orelse:
                walk(ch, fname, True)
            for ch in node.finalbody:
                walk(ch, fname, guarded)
            return
        if isinstance(node, (ast.With, ast.AsyncWith)):
            for ch in node.body:
                walk(ch, fname, True)
            return
        for ch in ast.iter_child_nodes(node):
            walk(ch, fname, guarded)
    walk(ast.parse(src), None, False)
    return out


class Monitor:
    f33_funcs = frozenset()     # set per module by the caller: cpdef functions that the workload also enters through their Python wrapper
    known_f33 = 0

    def __init__(self, mode, basename, spans, f19_funcs=()):
        self.mode, self.basename, self.spans = mode, basename, spans
        self.f19_funcs = set(f19_funcs)
        self.known_f19 = 0
        self.stack = []
        self.problems = []
        self.events = 0
        self.line_events = 0
        self.kinds = {}

    def mine(self, frame):
        return os.path.basename(frame.f_code.co_filename) == self.basename

    def _bad(self, what, **kw):
        f = kw.get("func")
        if what in ("return-without-start", "return-does-not-match-innermost-start", "line-event-outside-its-function-activation") and \
                (f in self.f19_funcs or kw.get("innermost") in self.f19_funcs):
            self.known_f19 += 1
            return
        if what == "start-without-return-at-end-of-run" and (self.known_f19 or (set(kw.get("open") or ()) & self.f19_funcs)):
            self.known_f19 += 1
            return      # the nesting bookkeeping is off because of F19 events in this run (or a return event was dropped inside 'with nogil')
        if self.f33_funcs:
            # known finding F33: a cpdef function entered through its Python wrapper delivers its 'call' event from the wrapper's
            # frame and its 'return' event from the C implementation's frame (none under settrace, two on an exception exit)
            involved = {f, kw.get("innermost")} | set(kw.get("open") or ()) | {n for _, n in self.stack}
            if self.known_f33 or (involved & set(self.f33_funcs)):
                self.known_f33 += 1
                return
        if len(self.problems) < 5:
            self.problems.append(dict(what=what, depth=len(self.stack), **kw))

    def on(self, frame, event, arg):
        if event in ("c_call", "c_return", "c_exception"):
            return
        if not self.mine(frame):
            return
        self.events += 1
        self.kinds[event] = self.kinds.get(event, 0) + 1
        name = frame.f_code.co_name.rsplit(".", 1)[-1]
        if event == "call":
            self.stack.append((id(frame.f_code), name))
        elif event == "return":
            if not self.stack:
                self._bad("return-without-start", func=name)
            else:
                top = self.stack.pop()
                if top[0] != id(frame.f_code):
                    self._bad("return-does-not-match-innermost-start", func=name, innermost=top[1])
                    if not any(c == id(frame.f_code) for c, _ in self.stack):
                        # a return event of a function that has no open activation at all (e.g. F19: the activation was already
                        # closed by the premature return event and its finally clause now yields): it is reported above, but it
                        # must not close the activation of somebody else, or every enclosing frame is misreported afterwards
                        self.stack.append(top)
        elif event == "line":
            self.line_events += 1
            sp = self.spans.get(name)
            ln = frame.f_lineno
            if not self.stack or self.stack[-1][0] != id(frame.f_code):
                self._bad("line-event-outside-its-function-activation", func=name, line=ln, innermost=self.stack[-1][1] if self.stack else None)
            elif sp and isinstance(sp[0], (list, tuple)):
                # several functions share this name (methods of different classes): the line must lie in one of their spans
                if not any(a <= ln <= b for a, b in sp):
                    self._bad("line-event-names-a-line-outside-the-function", func=name, line=ln, span=[list(x) for x in sp])
            elif sp and not (sp[0] <= ln <= sp[1]):
                self._bad("line-event-names-a-line-outside-the-function", func=name, line=ln, span=list(sp))
        # 'exception' events carry no nesting information

    def profile_cb(self, frame, event, arg):
        self.on(frame, event, arg)

    def trace_cb(self, frame, event, arg):
        self.on(frame, event, arg)
        return self.trace_cb

    def install(self):
        if self.mode == "profile":
            sys.setprofile(self.profile_cb)
        else:
            sys.settrace(self.trace_cb)

    def finish(self):
        if self.mode == "profile":
            sys.setprofile(None)
        else:
            sys.settrace(None)
        if self.stack:
            self._bad("start-without-return-at-end-of-run", open=[n for _, n in self.stack][:6])
        return self.problems


class DualMonitor:
    """A profiler and a tracer installed at the same time (debugger/coverage + profiler); each stream must be balanced on its own."""
    mode = "both"

    def __init__(self, basename, spans, f19_funcs=()):
        self.p = Monitor("profile", basename, spans, f19_funcs)
        self.t = Monitor("trace", basename, spans, f19_funcs)

    def install(self):
        sys.setprofile(self.p.profile_cb)
        sys.settrace(self.t.trace_cb)

    def finish(self):
        a = self.p.finish()
        b = self.t.finish()
        for x in a:
            x["stream"] = "profile"
        for x in b:
            x["stream"] = "trace"
        return a + b

    @property
    def events(self):
        return self.p.events + self.t.events

    @property
    def line_events(self):
        return self.t.line_events

    @property
    def known_f19(self):
        return self.p.known_f19 + self.t.known_f19

    @property
    def known_f33(self):
        return self.p.known_f33 + self.t.known_f33

    def set_f33(self, names):
        self.p.f33_funcs = self.t.f33_funcs = frozenset(names)


class DeclineMonitor(Monitor):
    """sys.settrace with a global trace function that declines some scopes (returns None on their 'call' event, by name):
    a declined activation must get no further events, an accepted one must be balanced as usual, and - checked by the
    caller - the traced program must behave as it does untraced."""

    def __init__(self, basename, spans, f19_funcs=()):
        Monitor.__init__(self, "trace", basename, spans, f19_funcs)
        self.mode = "decline"
        self.declined_calls = 0
        self.declined_codes = set()

    def declines(self, name):
        return sum(map(ord, name)) % 2 == 0

    def trace_cb(self, frame, event, arg):
        if not self.mine(frame):
            return self.trace_cb
        name = frame.f_code.co_name.rsplit(".", 1)[-1]
        if event == "call":
            self.events += 1
            if self.declines(name):
                self.declined_calls += 1
                self.declined_codes.add(id(frame.f_code))
                return None
            self.stack.append((id(frame.f_code), name))
            return self.trace_cb
        if self.declines(name) and id(frame.f_code) in self.declined_codes:
            self.events += 1
            self._bad("event-for-a-scope-whose-tracing-was-declined", func=name, event=event)
            return None
        self.on(frame, event, arg)
        return self.trace_cb

    def on(self, frame, event, arg):
        if event == "call":
            return
        Monitor.on(self, frame, event, arg)


def make(mode, basename, spans, f19_funcs=(), f33_funcs=()):
    if mode == "both":
        m = DualMonitor(basename, spans, f19_funcs)
        m.set_f33(f33_funcs)
        return m
    m = DeclineMonitor(basename, spans, f19_funcs) if mode == "decline" else Monitor(mode, basename, spans, f19_funcs)
    m.f33_funcs = frozenset(f33_funcs)
    return m
