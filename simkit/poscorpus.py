"""Code-object position corpus for C44 (input generation, NOT simulation - labelled as such in the evidence).

The second clause of C44 ("the position table attached to each compiled function's code object decodes to exactly the
positions the compiler recorded") is a pure function of the program; the fault-plan engine does not reach it.  This
corpus closes the gap cheaply: a generated module whose functions, lambdas, generator expressions, generators,
coroutines, methods and nested functions start at seeded line numbers (padding crosses the 2^k line boundaries that
size the bit fields of the code-object descriptions); for every reachable code object the compiled co_firstlineno
must equal CPython's for the same source, and every decoded position must lie inside the object's own span.
"""
import json
import types

from . import core, build


def gen_source(rng):
    lines = ["# generated"]
    names = []
    pads = [0, 0, 1, 2, 5, 9, 17, 33, 60, 130, 260, 300, 520, 1000]
    k = 0

    def pad():
        for _ in range(rng.choice(pads)):
            lines.append("")
    order = ["def", "lambda", "genexpr", "gen", "nested", "class", "coro", "genexpr", "lambda", "def"] * 2
    rng.shuffle(order)
    for kind in order[:rng.randint(8, 16)]:
        pad()
        k += 1
        if kind == "def":
            lines += ["def f%d(a=1):" % k, "    b = a + 1", "    return [b, a]"]
            names.append(("f%d" % k, "func"))
        elif kind == "lambda":
            lines += ["lam%d = lambda x=1: (x," % k, "                     x + 1)"]
            names.append(("lam%d" % k, "func"))
        elif kind == "genexpr":
            lines += ["gx%d = (x + %d" % (k, k), "        for x in (1, 2, 3))"]
            names.append(("gx%d" % k, "genobj"))
        elif kind == "gen":
            lines += ["def g%d(n=2):" % k, "    for i in range(n):", "        yield i"]
            names.append(("g%d" % k, "genfunc"))
        elif kind == "nested":
            lines += ["def o%d():" % k, "    def inner(q=1):", "        return q", "    return inner, (lambda: 2), (y for y in (1,)), [z for z in (1,)]"]
            names.append(("o%d" % k, "outer"))
        elif kind == "class":
            lines += ["class C%d:" % k, "    def m(self):", "        return 1", "    @staticmethod", "    def s():", "        return 2"]
            names.append(("C%d" % k, "class"))
        elif kind == "coro":
            lines += ["async def co%d():" % k, "    return 1"]
            names.append(("co%d" % k, "corofunc"))
    return "\n".join(lines) + "\n", names


def _code_of(obj):
    for attr in ("__code__", "gi_code", "cr_code", "ag_code"):
        c = getattr(obj, attr, None)
        if c is not None:
            return c
    return None


def collect(mod, names):
    """-> {label: (co_name, co_firstlineno, [lines of decoded positions])}"""
    out = {}

    def put(label, obj):
        c = _code_of(obj)
        if c is None:
            out[label] = None
            return
        try:
            pos = sorted({p[0] for p in c.co_positions() if p[0] is not None} | {p[1] for p in c.co_positions() if p[1] is not None})
        except Exception as e:
            pos = ["<%s>" % type(e).__name__]
        out[label] = [c.co_name, c.co_firstlineno, pos]
    for name, kind in names:
        obj = getattr(mod, name)
        if kind in ("func", "genobj"):
            put(name, obj)
        elif kind == "genfunc":
            put(name, obj)
            g = obj()
            put(name + "()", g)
            g.close()
        elif kind == "corofunc":
            put(name, obj)
            c = obj()
            put(name + "()", c)
            c.close()
        elif kind == "outer":
            put(name, obj)
            inner, lam, gx, _ = obj()
            put(name + ".inner", inner)
            put(name + ".lambda", lam)
            put(name + ".genexpr", gx)
        elif kind == "class":
            put(name + ".m", obj.m)
            put(name + ".s", obj.s)
    return out


def run_compiled(so, name, names):
    return collect(build.load_ext(name, so), names)


def check(rep, seed, nmods, prop="C44"):
    """Returns list of violations (dicts).  Counts into rep.probes."""
    viols = []
    gen = []
    for m in range(nmods):
        rng = core.rng_for("C44-poscorpus", seed, m)
        src, names = gen_source(rng)
        gen.append((src, names, "wlpos_%d_%d" % (seed, m)))
    sos = build.build_many([{"name": n, "src": s, "ext": ".py", "cflags": (), "directives": None} for s, _, n in gen])
    for (src, names, name), so in zip(gen, sos):
        if isinstance(so, Exception):
            rep.probes["poscorpus_modules_not_built"] = rep.probes.get("poscorpus_modules_not_built", 0) + 1
            continue
        rep.evaluations += 1
        model = types.ModuleType(name + "_model")
        exec(compile(src, name + ".py", "exec"), model.__dict__)
        want = collect(model, names)
        st, got = core.run_one_forked(run_compiled, so, name, names, timeout=120)
        if st != "ok" or not isinstance(got, dict):
            viols.append({"klass": "poscorpus-crash", "detail": {"status": st, "info": got}, "src": src, "names": names, "poscorpus": True})
            continue
        nlines = len(src.splitlines())
        for label in sorted(want):
            w, g = want[label], got.get(label)
            rep.probes["code_objects_compared"] = rep.probes.get("code_objects_compared", 0) + 1
            if w is None or g is None:
                if (w is None) != (g is None):
                    rep.probes["code_object_missing_on_one_side"] = rep.probes.get("code_object_missing_on_one_side", 0) + 1
                continue
            bad = None
            if g[1] != w[1]:
                bad = {"what": "co_firstlineno", "object": label, "python": w[1], "compiled": g[1]}
            else:
                lo, hi = w[1], max([w[1]] + [x for x in w[2] if isinstance(x, int)])
                outside = [x for x in g[2] if not isinstance(x, int) or not (lo <= x <= hi)]
                if outside:
                    bad = {"what": "decoded-position-outside-the-object's-lines", "object": label, "span": [lo, hi], "lines": outside[:6]}
            if bad:
                viols.append({"klass": "code-object-position:" + bad["what"], "detail": bad, "src": src, "names": names, "poscorpus": True, "module_lines": nlines})
                break
    return viols


def replay(payload):
    core.stage()
    src, names = payload["src"], [tuple(x) for x in payload["names"]]
    name = "witpos_" + core.digest(src)[:10]
    so = build.build_ext(name, src, ".py")
    model = types.ModuleType(name + "_model")
    exec(compile(src, name + ".py", "exec"), model.__dict__)
    want = collect(model, names)
    st, got = core.run_one_forked(run_compiled, so, name, names, timeout=120)
    if st != "ok":
        print("replayed: crash %s" % (got,))
        return True
    for label in sorted(want):
        w, g = want[label], got.get(label)
        if w and g and w[1] != g[1]:
            print("replayed: %s python=%s compiled=%s" % (label, w[:2], g[:2]))
            return True
        if w and g:
            lo, hi = w[1], max([w[1]] + [x for x in w[2] if isinstance(x, int)])
            if any((not isinstance(x, int)) or not (lo <= x <= hi) for x in g[2]):
                print("replayed: %s decoded positions %s outside %s" % (label, g[2], [lo, hi]))
                return True
    print("replayed: no difference")
    return False
