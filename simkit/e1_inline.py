"""E1b inline-cache — C48, second clause: cython.inline's module cache (the
in-process dict, sys.modules and the on-disk .so keyed by _inline_key).
Histories of inline calls varying one input at a time (code, argument types,
language level, directives, dependency contents) over simulated processes
that share one lib_dir; every returned value is compared with a forced fresh
build in an empty lib_dir in a fresh process.
"""
import json
import os
import shutil
import sys
import time

from . import core

PROP = "C48"

SNIPPETS = [
    # (code, args) — results depend on language level / directives / dependency contents
    ("return a // b", {"a": -7, "b": 2}),
    ("return a // b", {"a": -7.0, "b": 2.0}),
    ("return a % b", {"a": -7, "b": 3}),
    ("return 1 / 2", {}),
    ("return a ** b", {"a": 2, "b": -1}),
    ("x = a + 1\nreturn x * 2", {"a": 20}),
    ("cimport dep\nreturn dep.K + a", {"a": 1}),
    ("from dep cimport K\nreturn K * a", {"a": 3}),
]
DIRECTIVES = [None, {"cdivision": True}, {"cpow": True}, {"cdivision": True, "cpow": True}, {"language_level": 2}, {"language_level": 3}]
LEVELS = [None, 2, 3, "3str"]


def gen_history(rng, maxlen):
    ops = []
    n = rng.randint(2, maxlen)
    k = [0]
    pool = rng.sample(range(len(SNIPPETS)), rng.randint(1, 3))
    for _ in range(n):
        r = rng.random()
        if r < 0.70:
            si = rng.choice(pool)
            d = rng.choice(DIRECTIVES)
            lvl = rng.choice(LEVELS) if not (d and "language_level" in d) else None
            ops.append(["call", si, d, lvl])
        elif r < 0.85:
            ops.append(["restart"])
        else:
            k[0] += 1
            ops.append(["edit_dep", 10 + k[0]])
    ops.append(["call", rng.choice(pool), None, None])
    return ops


def _segment(calls, lib_dir, inc_dir, force):
    """Runs in a forked child: a simulated process executing inline calls."""
    from Cython.Build.Inline import cython_inline
    out = []
    for si, d, lvl in calls:
        code, args = SNIPPETS[si]
        kw = dict(args)
        try:
            v = cython_inline(code, lib_dir=lib_dir, cython_include_dirs=[inc_dir], cython_compiler_directives=d,
                              language_level=lvl, force=force, quiet=True, locals={}, globals={}, **kw)
            out.append(["value", v if isinstance(v, (int, float, str, type(None))) else repr(v)])
        except BaseException as e:
            if isinstance(e, (SystemExit, KeyboardInterrupt)):
                raise
            out.append(["raise", type(e).__name__])
    return out


def _run_segment(calls, lib_dir, inc_dir, force=False):
    os.environ["CFLAGS"] = "-O0 -w"
    devnull = os.open(os.devnull, os.O_WRONLY)
    os.dup2(devnull, 1)
    os.dup2(devnull, 2)
    return _segment(calls, lib_dir, inc_dir, force)


_ref_memo = {}


def reference(rundir, call, depv):
    key = json.dumps([call, depv])
    if key in _ref_memo:
        return _ref_memo[key]
    d = os.path.join(rundir, "ref%d" % len(_ref_memo))
    lib, inc = os.path.join(d, "lib"), os.path.join(d, "inc")
    os.makedirs(lib)
    os.makedirs(inc)
    with open(os.path.join(inc, "dep.pxd"), "w") as f:
        f.write("cdef enum:\n    K = %d\n" % depv)
    st, r = core.run_one_forked(_run_segment, [call], lib, inc, True, timeout=180)
    shutil.rmtree(d, ignore_errors=True)
    if st != "ok" or not isinstance(r, list):
        raise core.HarnessError("inline reference build failed: %s %r" % (st, r))
    _ref_memo[key] = r[0]
    return r[0]


def simulate(ops, rundir):
    lib, inc = os.path.join(rundir, "lib"), os.path.join(rundir, "inc")
    os.makedirs(lib)
    os.makedirs(inc)
    depv = [10]

    def write_dep():
        with open(os.path.join(inc, "dep.pxd"), "w") as f:
            f.write("cdef enum:\n    K = %d\n" % depv[0])
    write_dep()
    results, expected = [], []
    seg, seg_dep = [], []
    dep_edited_since_build = set()
    stats = {"segments": 0, "calls": 0, "dep_edits": 0}

    def flush():
        if not seg:
            return
        st, r = core.run_one_forked(_run_segment, list(seg), lib, inc, False, timeout=300)
        if st != "ok" or not isinstance(r, list):
            raise core.HarnessError("inline segment failed: %s %r" % (st, r))
        results.extend(r)
        stats["segments"] += 1
        del seg[:]
    for op in ops:
        if op[0] == "call":
            call = [op[1], op[2], op[3]]
            # a dependency edit must be visible to the NEXT call, so calls after an edit start a new segment only on restart;
            # within one simulated process the include dir content at call time is what counts
            seg.append(call)
            expected.append((call, depv[0]))
            stats["calls"] += 1
            flush()         # one call per fork keeps dep edits ordered; the process identity is simulated by lib_dir + restart ops below
        elif op[0] == "restart":
            flush()
        elif op[0] == "edit_dep":
            flush()
            depv[0] = op[1]
            write_dep()
            stats["dep_edits"] += 1
    flush()
    refs = [reference(rundir, c, dv) for c, dv in expected]
    return results, refs, expected, stats


def simulate_inproc(ops, rundir):
    """Same history, but consecutive calls between restarts run in ONE simulated process (in-process caches live on)."""
    lib, inc = os.path.join(rundir, "lib"), os.path.join(rundir, "inc")
    os.makedirs(lib)
    os.makedirs(inc)
    depv = [10]
    with open(os.path.join(inc, "dep.pxd"), "w") as f:
        f.write("cdef enum:\n    K = 10\n")
    segments, cur = [], []
    expected = []
    for op in ops:
        if op[0] == "call":
            cur.append([op[1], op[2], op[3]])
            expected.append(([op[1], op[2], op[3]], depv[0]))
        elif op[0] == "restart":
            if cur:
                segments.append(("calls", cur))
                cur = []
        elif op[0] == "edit_dep":
            # a dependency edit between two calls of one process: model it as process boundary too (edits happen outside)
            if cur:
                segments.append(("calls", cur))
                cur = []
            segments.append(("edit", op[1]))
            depv[0] = op[1]
    if cur:
        segments.append(("calls", cur))
    results = []
    for kind, payload in segments:
        if kind == "edit":
            with open(os.path.join(inc, "dep.pxd"), "w") as f:
                f.write("cdef enum:\n    K = %d\n" % payload)
            continue
        st, r = core.run_one_forked(_run_segment, payload, lib, inc, False, timeout=300)
        if st != "ok" or not isinstance(r, list):
            raise core.HarnessError("inline segment failed: %s %r" % (st, r))
        results.extend(r)
    refs = [reference(rundir, c, dv) for c, dv in expected]
    return results, refs, expected, {"segments": len(segments), "calls": len(expected), "dep_edits": sum(1 for k, _ in segments if k == "edit")}


def uses_dep(call):
    return "dep" in SNIPPETS[call[0]][0]


def one_run(check, seed, i, cfg, ops=None):
    rng = core.rng_for(check + ":inline", seed, i)
    core.use_stage()
    if ops is None:
        ops = gen_history(rng, cfg["maxlen"])
    rundir = os.path.join(core.workdir(), "e1i", "r%d-%d-%d" % (os.getpid(), seed, i))
    shutil.rmtree(rundir, ignore_errors=True)
    os.makedirs(rundir)
    res = {"probes": {}, "faults": {}, "steps": len(ops)}
    try:
        results, refs, expected, stats = simulate_inproc(ops, rundir)
    finally:
        shutil.rmtree(rundir, ignore_errors=True)
    res["probes"]["inline_calls"] = stats["calls"]
    res["probes"]["inline_process_segments"] = stats["segments"]
    res["faults"]["dependency_edit"] = stats["dep_edits"]
    res["faults"]["process_restart"] = sum(1 for o in ops if o[0] == "restart")
    res["digest"] = core.digest(ops)
    res["nontrivial"] = len({json.dumps(c[:1] + c[1:]) for c, _ in expected}) >= 2
    for k, (got, want, (call, dv)) in enumerate(zip(results, refs, expected)):
        if got != want:
            if uses_dep(call) and stats["dep_edits"] and not cfg.get("raw"):
                # known finding F3b: the key does not cover dependency contents
                res["probes"]["known_F3b_dependency_content_not_in_inline_key"] = res["probes"].get("known_F3b_dependency_content_not_in_inline_key", 0) + 1
                continue
            res["violation"] = {"klass": "inline-result-differs-from-fresh-build", "detail": {"call_index": k, "call": call, "dep_version": dv, "got": got, "fresh": want},
                                "ops": ops, "engine_part": "inline"}
            break
    if i % 20 == 0:
        res["sample"] = {"inline_ops": ops}
    return res


def replay(payload):
    r = one_run(PROP, 0, 0, {"maxlen": 6, "raw": payload.get("raw", False)}, ops=payload["ops"])
    v = r.get("violation")
    print("replayed: %s" % (json.dumps(v["detail"]) if v else "no violation"))
    return bool(v)
