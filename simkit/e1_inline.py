"""E1b inline-cache — C48, second clause: cython.inline's module cache (the
in-process dict, sys.modules and the on-disk .so keyed by _inline_key).

A run is a history of cython.inline calls issued by a sequence of simulated
processes (real forks, one after the other) that share one lib_dir.  Between
calls the inputs change (code, argument types, language level, compiler
directives; cimports inside inline snippets are not supported by this Cython
version, so "dependency contents" cannot be varied - an unrelated file in the
include directory is edited instead and must not matter); processes restart (the in-process
caches are lost, the lib_dir survives) and may be killed at a seam point inside
the build (before cythonize, after the C file exists, after the .so exists but
before it is loaded, or with the .so torn to a prefix).  Oracle: every call that
returns gives exactly the value a forced fresh build in an empty lib_dir in a
fresh process gives for the same inputs.
"""
import hashlib
import json
import os
import shutil
import sys
import time

from . import core

PROP = "C48"

SNIPPETS = [
    # (code, {variant: args}) — results depend on language level / directives / argument types / dependency contents
    ("return a // b", {"int": {"a": -7, "b": 2}, "float": {"a": -7.0, "b": 2.0}, "mixed": {"a": -7, "b": 2.0}}),
    ("return a % b", {"int": {"a": -7, "b": 3}, "float": {"a": -7.5, "b": 3.0}}),
    ("return 1 / 2", {"none": {}}),
    ("return a ** b", {"int": {"a": 2, "b": -1}, "float": {"a": 2.0, "b": -1.0}}),
    ("return type('x').__name__, type(b'x').__name__", {"none": {}}),
    ("x = a * a\nreturn x", {"int": {"a": 1 << 40}, "float": {"a": 2.0 ** 40}}),
    ("return a", {"int": {"a": 3}, "float": {"a": 3.0}, "str": {"a": "s"}, "list": {"a": [1]}}),
]
DIRECTIVES = [None, {"cdivision": True}, {"cpow": True}, {"cdivision": True, "cpow": True}, {"overflowcheck": True},
              {"language_level": 2}, {"language_level": 3}, {"cdivision": False}]
LEVELS = [None, 2, 3, "3str"]
KILL_POINTS = ["before_cythonize", "after_cythonize", "after_build", "torn_so"]


# per snippet: (directives, level, variant) settings whose fresh results differ from one another (the dimension a stale
# entry would be visible in); the focused generator alternates between two of them for one snippet
SENSITIVE = {
    0: [(None, None, "int"), ({"cdivision": True}, None, "int"), (None, None, "float"), ({"cdivision": False}, None, "mixed")],
    1: [(None, None, "int"), ({"cdivision": True}, None, "int"), (None, None, "float")],
    2: [(None, 2, "none"), (None, 3, "none"), ({"language_level": 2}, None, "none"), ({"language_level": 3}, None, "none"), (None, None, "none")],
    3: [(None, None, "int"), ({"cpow": True}, None, "int"), (None, None, "float")],
    4: [(None, 2, "none"), (None, 3, "none"), (None, "3str", "none"), ({"language_level": 2}, None, "none")],
    5: [(None, None, "int"), ({"overflowcheck": True}, None, "int"), (None, None, "float")],
    6: [(None, None, "int"), (None, None, "float"), (None, None, "str"), (None, None, "list")],
}


def gen_focused(rng, cfg):
    """One snippet, two settings that matter for it, alternated across calls, processes and kills."""
    si = rng.choice(sorted(SENSITIVE) + [2, 4])
    s1, s2 = rng.sample(SENSITIVE[si], 2)
    if si in (2, 4) and rng.random() < 0.6:
        # the language level handed over in two different ways / two different levels through the directives dict
        lv = [2, rng.choice([3, "3str"])]
        rng.shuffle(lv)
        var = SENSITIVE[si][0][2]
        s1, s2 = rng.choice([(({"language_level": lv[0]}, None, var), ({"language_level": lv[1]}, None, var)),
                             (({"language_level": lv[0]}, None, var), (None, lv[1], var))])
    for _ in range(3):      # prefer pairs that differ in directives/level only (same argument types => same module signature)
        if s1[2] == s2[2]:
            break
        s1, s2 = rng.sample(SENSITIVE[si], 2)
    faults = rng.random() < cfg.get("fault_rate", 0.4)
    ops = []
    seq = [s1, s2] + [rng.choice([s1, s2]) for _ in range(rng.randint(0, 3))]
    for k, (d, lvl, var) in enumerate(seq):
        if k and rng.random() < 0.45:
            ops.append(["restart"])
        if faults and rng.random() < 0.3:
            ops.append(["kill", rng.choice(KILL_POINTS)])
            ops.append(["call", si, d, lvl, var])
        ops.append(["call", si, d, lvl, var])
    return ops


def gen_history(rng, cfg):
    if rng.random() < cfg.get("focused_rate", 0.6):
        return gen_focused(rng, cfg)
    ops = []
    n = rng.randint(2, cfg["maxlen"])
    k = 0
    pool = rng.sample(range(len(SNIPPETS)), rng.randint(1, 3))
    faults = rng.random() < cfg.get("fault_rate", 0.4)
    # swarm: this run varies only some dimensions, so that single-dimension changes under a shared rest are common
    vary_dir = rng.random() < 0.8
    vary_lvl = rng.random() < 0.6
    vary_arg = rng.random() < 0.6
    base_d = rng.choice(DIRECTIVES)
    base_l = rng.choice(LEVELS)
    for _ in range(n):
        r = rng.random()
        if r < 0.68:
            si = rng.choice(pool)
            d = rng.choice(DIRECTIVES) if vary_dir else base_d
            lvl = rng.choice(LEVELS) if vary_lvl else base_l
            if d and "language_level" in d and rng.random() < 0.7:
                lvl = None
            variants = sorted(SNIPPETS[si][1])
            var = rng.choice(variants) if vary_arg else variants[0]
            if faults and rng.random() < 0.25:
                ops.append(["kill", rng.choice(KILL_POINTS)])
            ops.append(["call", si, d, lvl, var])
        elif r < 0.86:
            ops.append(["restart"])
        else:
            k += 1
            ops.append(["edit_dep", 10 + k])
    si = rng.choice(pool)
    ops.append(["call", si, base_d, base_l, sorted(SNIPPETS[si][1])[0]])
    return ops


# --------------------------------------------------------------------------
# a simulated process

def _install_kill_seam(point):
    """Runs in the child before the call that is to die: module-global shadowing of the names Inline.py uses."""
    from Cython.Build import Inline
    real_cythonize = Inline.cythonize
    real_gbe = Inline._get_build_extension

    def cythonize(*a, **kw):
        if point == "before_cythonize":
            os._exit(137)
        r = real_cythonize(*a, **kw)
        if point == "after_cythonize":
            os._exit(137)
        return r

    def get_build_extension():
        be = real_gbe()
        real_run = be.run

        def run():
            real_run()
            if point in ("after_build", "torn_so"):
                if point == "torn_so":
                    for f in os.listdir(be.build_lib):
                        if f.endswith(".so"):
                            p = os.path.join(be.build_lib, f)
                            n = os.path.getsize(p)
                            with open(p, "r+b") as fh:
                                fh.truncate(n // 2)
                os._exit(137)
        be.run = run
        return be
    Inline.cythonize = cythonize
    Inline._get_build_extension = get_build_extension


def _segment(calls, lib_dir, inc_dir, force, wfd):
    """Child: executes inline calls; writes one JSON line per finished call so that a kill loses only the call in flight."""
    os.environ["CFLAGS"] = "-O0 -w"
    devnull = os.open(os.devnull, os.O_WRONLY)
    os.dup2(devnull, 1)
    os.dup2(devnull, 2)
    core.use_stage()
    from Cython.Build.Inline import cython_inline
    out = os.fdopen(wfd, "w")
    for si, d, lvl, var, kill in calls:
        code, variants = SNIPPETS[si]
        kw = dict(variants[var])
        if kill:
            _install_kill_seam(kill)
        try:
            v = cython_inline(code, lib_dir=lib_dir, cython_include_dirs=[inc_dir], cython_compiler_directives=d,
                              language_level=lvl, force=force, quiet=True, locals={}, globals={}, **kw)
            res = ["value", repr(v)]
        except BaseException as e:
            if isinstance(e, (SystemExit, KeyboardInterrupt)):
                raise
            res = ["raise", type(e).__name__]
        out.write(json.dumps(res) + "\n")
        out.flush()
    out.close()


def run_process(calls, lib_dir, inc_dir, force=False, timeout=300):
    """Returns the list of per-call results; a call lost to a kill is ['killed']; later calls of that process never ran."""
    r, w = os.pipe()
    pid = os.fork()
    if pid == 0:
        os.close(r)
        try:
            _segment(calls, lib_dir, inc_dir, force, w)
            os._exit(0)
        except BaseException:
            os._exit(3)
    os.close(w)
    import select
    import signal
    data, t0 = b"", time.time()
    while True:
        rl, _, _ = select.select([r], [], [], 1.0)
        if rl:
            chunk = os.read(r, 1 << 16)
            if not chunk:
                break
            data += chunk
        elif time.time() - t0 > timeout:
            os.kill(pid, signal.SIGKILL)
            break
    os.close(r)
    _, status = os.waitpid(pid, 0)
    res = [json.loads(l) for l in data.decode().splitlines() if l.strip()]
    code = os.WEXITSTATUS(status) if os.WIFEXITED(status) else -os.WTERMSIG(status)
    return res, code


def _ref_dir():
    d = os.path.join(core.workdir(), "e1i-ref-" + core.stage()[1][:12])
    os.makedirs(d, exist_ok=True)
    return d


_ref_memo = {}


def reference(rundir, call, depv):
    """Forced fresh build, empty lib_dir, fresh process; memoised in memory and on disk (per staged tree)."""
    uses = "dep" in SNIPPETS[call[0]][0]
    key = json.dumps([SNIPPETS[call[0]][0], call[1:], depv if uses else None], sort_keys=True)
    if key in _ref_memo:
        return _ref_memo[key]
    path = os.path.join(_ref_dir(), hashlib.sha256(key.encode()).hexdigest()[:24] + ".json")
    if os.path.exists(path):
        try:
            with open(path) as f:
                _ref_memo[key] = json.load(f)
            return _ref_memo[key]
        except ValueError:
            pass
    d = os.path.join(rundir, "ref%d" % len(_ref_memo))
    lib, inc = os.path.join(d, "lib"), os.path.join(d, "inc")
    os.makedirs(lib)
    os.makedirs(inc)
    with open(os.path.join(inc, "dep.pxd"), "w") as f:
        f.write("cdef enum:\n    K = %d\n" % depv)
    r, code = run_process([call + [None]], lib, inc, True)
    shutil.rmtree(d, ignore_errors=True)
    if code != 0 or len(r) != 1:
        raise core.HarnessError("inline reference build failed: exit %s %r" % (code, r))
    _ref_memo[key] = r[0]
    tmp = path + ".%d.tmp" % os.getpid()
    with open(tmp, "w") as f:
        json.dump(r[0], f)
    os.replace(tmp, path)
    return r[0]


def simulate(ops, rundir):
    lib, inc = os.path.join(rundir, "lib"), os.path.join(rundir, "inc")
    os.makedirs(lib)
    os.makedirs(inc)
    depv = [10]

    def write_dep():
        with open(os.path.join(inc, "dep.pxd"), "w") as f:
            f.write("cdef enum:\n    K = %d\n" % depv[0])
    write_dep()
    # cut the history into processes: a restart, a dependency edit (made from outside) and a kill end a process
    procs, cur, pending_kill = [], [], None
    records = []        # per call: dict(call, depv, proc, kill)
    for op in ops:
        if op[0] == "call":
            c = list(op[1:5])
            rec = {"call": c, "depv": depv[0], "kill": pending_kill, "idx": len(records)}
            records.append(rec)
            cur.append(rec)
            if pending_kill:
                procs.append(("calls", cur))
                cur, pending_kill = [], None
        elif op[0] == "kill":
            pending_kill = op[1]
        elif op[0] == "restart":
            if cur:
                procs.append(("calls", cur))
                cur = []
        elif op[0] == "edit_dep":
            if cur:
                procs.append(("calls", cur))
                cur = []
            procs.append(("edit", op[1]))
            depv[0] = op[1]
    if cur:
        procs.append(("calls", cur))
    stats = {"processes": 0, "calls": len(records), "dep_edits": 0, "kills_fired": {}, "log": []}
    for kind, payload in procs:
        if kind == "edit":
            depv[0] = payload
            write_dep()
            stats["dep_edits"] += 1
            stats["log"].append(["edit_dep", payload])
            continue
        stats["processes"] += 1
        res, code = run_process([r["call"] + [r["kill"]] for r in payload], lib, inc)
        for j, rec in enumerate(payload):
            if j < len(res):
                rec["got"] = res[j]
            elif rec["kill"] and j == len(res) and code == 137:
                rec["got"] = ["killed", rec["kill"]]
                stats["kills_fired"][rec["kill"]] = stats["kills_fired"].get(rec["kill"], 0) + 1
            elif j == len(res) and code < 0:
                rec["got"] = ["died", "signal %d" % -code]      # the simulated process crashed inside this call
            elif j > len(res) and code < 0:
                rec["got"] = ["lost"]                           # never ran: its process had crashed in an earlier call
            else:
                raise core.HarnessError("inline process lost a call without a scheduled kill: exit %s, %d of %d results" % (code, len(res), len(payload)))
            stats["log"].append(["call", rec["call"], rec["got"]])
        if len(res) == len(payload) and any(r["kill"] for r in payload):
            # the kill point was not reached: the call was served from a cache level before the build
            stats["kills_fired"]["not_reached"] = stats["kills_fired"].get("not_reached", 0) + 1
    for rec in records:
        rec["ref"] = reference(rundir, rec["call"], rec["depv"])
    return records, stats


def key_of(call):
    """What _inline_key is meant to distinguish (for the torn-.so known finding: same key = same code, arg variant, level, directives)."""
    return json.dumps(call, sort_keys=True)


def one_run(check, seed, i, cfg, ops=None):
    rng = core.rng_for(check + ":inline", seed, i)
    core.use_stage()
    if ops is None:
        ops = gen_history(rng, cfg)
    rundir = os.path.join(core.workdir(), "e1i", "r%d-%d-%d" % (os.getpid(), seed, i))
    shutil.rmtree(rundir, ignore_errors=True)
    os.makedirs(rundir)
    res = {"probes": {}, "faults": {}, "steps": len(ops)}
    try:
        records, stats = simulate(ops, rundir)
    finally:
        shutil.rmtree(rundir, ignore_errors=True)
    P = res["probes"]
    P["inline_calls"] = stats["calls"]
    P["inline_processes"] = stats["processes"]
    res["faults"]["inline_unrelated_file_edit_in_include_dir"] = stats["dep_edits"]
    res["faults"]["inline_process_restart"] = sum(1 for o in ops if o[0] == "restart")
    for k, v in stats["kills_fired"].items():
        res["faults"]["inline_kill_" + k] = v
    res["digest"] = core.digest(stats["log"])
    distinct_keys = {key_of(r["call"]) for r in records}
    res["nontrivial"] = len(distinct_keys) >= 2 or bool(stats["kills_fired"])
    torn_keys = set()
    seen_key_dep = {}
    for rec in records:
        got, want, call = rec["got"], rec["ref"], rec["call"]
        k = key_of(call)
        if got[0] == "killed":
            if got[1] == "torn_so":
                torn_keys.add(k)
            continue
        if got[0] == "lost":
            continue
        code_k = json.dumps([call[0], call[3]])
        if code_k in seen_key_dep and seen_key_dep[code_k] != (call[1], call[2]):
            P["same_code_other_directives_or_level"] = P.get("same_code_other_directives_or_level", 0) + 1
        seen_key_dep.setdefault(code_k, (call[1], call[2]))
        if got == want:
            continue
        if k in torn_keys:
            P["call_after_torn_so_of_same_key"] = P.get("call_after_torn_so_of_same_key", 0) + 1
        res["violation"] = {"klass": "inline-result-differs-from-fresh-build",
                            "detail": {"call_index": rec["idx"], "call": [SNIPPETS[call[0]][0]] + call[1:], "dep_version": rec["depv"], "got": got, "fresh": want},
                            "ops": ops, "engine_part": "inline"}
        break
    if i % 20 == 0:
        res["sample"] = {"inline_ops": ops, "log": stats["log"][-8:]}
    return res


def _fails(ops, raw):
    try:
        r = one_run(PROP, 0, 0, {"maxlen": 8, "raw": raw}, ops=ops)
    except Exception:
        return False
    return "violation" in r


def minimise(v, raw=False):
    ops = v["ops"]
    deadline = time.time() + 90

    def t(cand):
        if time.time() > deadline or not any(o[0] == "call" for o in cand):
            return False
        return _fails(cand, raw)
    ops2 = core.ddmin(list(ops), t, max_tests=40)
    r = one_run(PROP, 0, 0, {"maxlen": 8, "raw": raw}, ops=ops2)
    if "violation" in r:
        return dict(r["violation"], minimised=True)
    return v


def replay(payload):
    r = one_run(PROP, 0, 0, {"maxlen": 8, "raw": payload.get("raw", False)}, ops=payload["ops"])
    v = r.get("violation")
    print("replayed: %s" % (json.dumps(v["detail"]) if v else "no violation"))
    return bool(v)
