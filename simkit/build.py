"""Build compiled workload modules from the staged compiler: source text + flags -> .so
(cached under $VERIF_WORK/build/<treehash>/<sha>)."""
import hashlib
import importlib.machinery
import importlib.util
import os
import shutil
import subprocess
import sys
import sysconfig

from . import core

BASE_CFLAGS = ["-O0", "-fPIC", "-w", "-fno-strict-aliasing"]


def _key(name, src, ext, directives, cflags, cplus, options=None):
    h = hashlib.sha256()
    for part in (name, src, ext, repr(sorted((directives or {}).items())), repr(cflags), repr(cplus), repr(sorted((options or {}).items()))):
        h.update(part.encode() + b"\0")
    return h.hexdigest()[:20]


def build_ext(name, src, ext=".py", directives=None, cflags=(), cplus=False, ldflags=(), keep_c=False, timeout=600, options=None, extra_files=None, split_link=False):
    """Cythonize src (module `name`) with the staged compiler in a subprocess, gcc it, return path to .so.
    Raises core.HarnessError with the tool output on failure."""
    stage, th = core.stage()
    key = _key(name, src + repr(sorted((extra_files or {}).items())) + repr(split_link), ext, directives, tuple(cflags) + tuple(ldflags), cplus, options)
    d = os.path.join(core.workdir(), "build", th, key)
    so = os.path.join(d, name + ".so")
    if os.path.exists(so):
        return so
    tmp = d + ".tmp%d" % os.getpid()
    shutil.rmtree(tmp, ignore_errors=True)
    os.makedirs(tmp)
    srcp = os.path.join(tmp, name + ext)
    with open(srcp, "w") as f:
        f.write(src)
    cfile = os.path.join(tmp, name + (".cpp" if cplus else ".c"))
    dargs = []
    for k, v in sorted((directives or {}).items()):
        dargs += ["-X", "%s=%s" % (k, v)]
    for fn, text in (extra_files or {}).items():
        with open(os.path.join(tmp, fn), "w") as f:
            f.write(text)
    if options:
        # module-level compiler options (Cython.Compiler.Options.<name>) have no command line switch
        boot = "import sys; from Cython.Compiler import Options; " + "; ".join("Options.%s = %r" % kv for kv in sorted(options.items())) + \
               "; from Cython.Compiler.Main import setuptools_main; sys.argv[0] = 'cython'; sys.exit(setuptools_main())"
        launcher = [sys.executable, "-c", boot]
    else:
        launcher = [sys.executable, os.path.join(stage, "cython.py")]
    cmd = launcher + ["-3", "--fast-fail"] + (["--cplus"] if cplus else []) + dargs + [srcp, "-o", cfile]
    env = core.child_env()
    r = subprocess.run(cmd, capture_output=True, text=True, env=env, cwd=tmp, timeout=timeout)
    if r.returncode != 0 or not os.path.exists(cfile):
        shutil.rmtree(tmp, ignore_errors=True)
        raise CythonizeError("cython failed for %s:\n%s\n%s" % (name, r.stdout[-1500:], r.stderr[-1500:]))
    inc = sysconfig.get_paths()["include"]
    cc = "g++" if cplus else "gcc"
    if split_link:
        # compile with all flags (e.g. -fopenmp for the pragmas), link with ldflags only (no libgomp)
        obj = os.path.join(tmp, name + ".o")
        cmd = [cc, "-c"] + BASE_CFLAGS + list(cflags) + ["-I", inc, cfile, "-o", obj]
        r = subprocess.run(cmd, capture_output=True, text=True, timeout=timeout)
        if r.returncode == 0:
            cmd = [cc, "-shared", obj, "-o", os.path.join(tmp, name + ".so")] + list(ldflags)
            r = subprocess.run(cmd, capture_output=True, text=True, timeout=timeout)
    else:
        cmd = [cc, "-shared"] + BASE_CFLAGS + list(cflags) + ["-I", inc, cfile, "-o", os.path.join(tmp, name + ".so")] + list(ldflags)
        r = subprocess.run(cmd, capture_output=True, text=True, timeout=timeout)
    if r.returncode != 0:
        shutil.rmtree(tmp, ignore_errors=True)
        raise core.HarnessError("C compile failed for %s:\n%s" % (name, r.stderr[-3000:]))
    if not keep_c:
        try:
            os.unlink(cfile)
        except OSError:
            pass
    try:
        os.rename(tmp, d)
    except OSError:
        shutil.rmtree(tmp, ignore_errors=True)
    return so


class CythonizeError(core.HarnessError):
    pass


def load_ext(name, so):
    loader = importlib.machinery.ExtensionFileLoader(name, so)
    spec = importlib.util.spec_from_file_location(name, so, loader=loader)
    mod = importlib.util.module_from_spec(spec)
    sys.modules[name] = mod
    loader.exec_module(mod)
    return mod


def load_py(name, src):
    """The model: the same source executed by CPython."""
    import types
    mod = types.ModuleType(name)
    mod.__file__ = name + ".py"
    exec(compile(src, name + ".py", "exec"), mod.__dict__)
    return mod


def build_many(specs, jobs=None):
    """specs: list of kwargs for build_ext; built in parallel threads (each spawns subprocesses)."""
    from concurrent.futures import ThreadPoolExecutor
    jobs = jobs or core.env_jobs()
    with ThreadPoolExecutor(max_workers=jobs) as ex:
        futs = [ex.submit(build_ext, **s) for s in specs]
        out = []
        for f in futs:
            try:
                out.append(f.result())
            except core.HarnessError as e:
                out.append(e)
        return out


def build_simgomp():
    """The deterministic OpenMP runtime shim as a shared library (so that ctypes and the workload share one instance)."""
    src = os.path.join(os.path.dirname(os.path.abspath(__file__)), "simgomp.c")
    with open(src, "rb") as f:
        key = hashlib.sha256(f.read()).hexdigest()[:16]
    d = os.path.join(core.workdir(), "build", "simgomp-" + key)
    so = os.path.join(d, "libsimgomp.so")
    if os.path.exists(so):
        return so
    tmp = d + ".tmp%d" % os.getpid()
    os.makedirs(tmp, exist_ok=True)
    inc = sysconfig.get_paths()["include"]
    r = subprocess.run(["gcc", "-shared", "-fPIC", "-O1", "-g", "-w", "-I", inc, src, "-o", os.path.join(tmp, "libsimgomp.so"), "-lpthread"],
                       capture_output=True, text=True)
    if r.returncode != 0:
        raise core.HarnessError("simgomp build failed:\n%s" % r.stderr[-2000:])
    try:
        os.rename(tmp, d)
    except OSError:
        shutil.rmtree(tmp, ignore_errors=True)
    return so
