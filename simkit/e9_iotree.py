"""E9 iotree — C49.  Seeded interleavings of writer tasks on the real
StringIOTree / CCodeWriter against a list-of-holes reference model.

No fault kinds exist for an in-memory buffer; this is history/schedule
refinement only (fault_counts stays empty on purpose).
"""
import io
import random

from . import core

PROP = "C49"
ENGINE = "E9-iotree"

TEXTS = ["a", "bc", "x\n", "\n", "l1\nl2\n", "t\n\nu", "", "zz\nq", "\n\n\n", "e;"]


# --------------------------------------------------------------------------
# reference model: a node is a list of items; item = ("t", text, [markers]) | ("n", node)

class MNode:
    __slots__ = ("items", "parent", "ident")

    def __init__(self, ident):
        self.items = []
        self.parent = None
        self.ident = ident

    def root(self):
        n = self
        while n.parent is not None:
            n = n.parent
        return n

    def flat(self, out, marks):
        for it in self.items:
            if it[0] == "t":
                out.append(it[1])
                marks.extend(it[2])
            else:
                it[1].flat(out, marks)

    def value(self):
        out, marks = [], []
        self.flat(out, marks)
        return "".join(out), marks


class MWriter:
    """Model of the CCodeWriter formatting/marker state that travels with a handle."""
    __slots__ = ("node", "last_pos", "last_marked", "bol")

    def __init__(self, node, last_pos=None, last_marked=None, bol=1):
        self.node, self.last_pos, self.last_marked, self.bol = node, last_pos, last_marked, bol

    def _w(self, s):
        m = self.last_marked[:2] if self.last_marked else (None, 0)
        self.node.items.append(("t", s, [m] * s.count("\n")))


# --------------------------------------------------------------------------
# backends

class RawBackend:
    """Real StringIOTree; markers maintained the way CCodeWriter._write_lines does."""
    name = "raw"

    def __init__(self):
        from Cython.StringIOTree import StringIOTree
        self.T = StringIOTree

    def root(self):
        return self.T()

    def new(self, root):
        return self.T()

    def write(self, h, s, marker):
        if "\n" in s:
            h.markers.extend([marker] * s.count("\n"))
        h.write(s)

    def tree(self, h):
        return h


class CCWBackend:
    name = "ccw"

    def __init__(self):
        from Cython.Compiler import Code

        class GS:
            code_config = Code.CCodeConfig(emit_linenums=False, emit_code_comments=False)
            directives = {"linetrace": False}
        self.Code = Code
        self.gs = GS()

    def root(self):
        w = self.Code.CCodeWriter()
        w.set_global_state(self.gs)
        return w

    def new(self, root):
        return root.new_writer()

    def tree(self, h):
        return h.buffer


# --------------------------------------------------------------------------
# op generation.  Handles are named by the index of the op that created them
# (stable under deletion of other ops, which ddmin relies on); root is -1.

def gen_ops(rng, n, layer, allow_reset=True):
    ops = []
    live = [-1]          # handle ids usable as targets
    detached = []        # never-inserted detached trees
    for i in range(n):
        r = rng.random()
        h = rng.choice(live)
        if r < 0.40:
            if layer == "raw":
                ops.append(("w", h, rng.choice(TEXTS), rng.randrange(5)))
            else:
                k = rng.random()
                if k < 0.5:
                    ops.append(("putln", h, rng.choice(["", "x;", "y = 1;", "/*c*/"])))
                elif k < 0.7:
                    ops.append(("put", h, rng.choice(["p", "q ", "r+"])))
                elif k < 0.85:
                    ops.append(("write", h, rng.choice(TEXTS)))
                else:
                    ops.append(("mark", h, rng.randrange(3), rng.randrange(1, 6)))
        elif r < 0.58:
            ops.append(("ip", h))
            live.append(i)
        elif r < 0.66:
            ops.append(("new",))
            live.append(i)
            detached.append(i)
        elif r < 0.76 and detached:
            u = rng.choice(detached)
            ops.append(("ins", h, u))
            # validity (no cycle) is checked at run time against the model
        elif r < 0.82:
            ops.append(("commit", h))
        elif r < 0.85 and allow_reset and layer == "raw":
            ops.append(("reset", h))
        elif layer == "ccw" and r < 0.90:
            ops.append(("mark", h, rng.randrange(3), rng.randrange(1, 6)))
        else:
            ops.append(("obs", h))
    return ops


class Mismatch(Exception):
    def __init__(self, klass, step, detail):
        Exception.__init__(self, klass)
        self.klass, self.step, self.detail = klass, step, detail


def run_ops(ops, layer, check_every=True, log=None):
    """Interpret ops against the real object and the model; raise Mismatch."""
    be = RawBackend() if layer == "raw" else CCWBackend()
    real = {-1: be.root()}
    mroot = MNode(-1)
    model = {-1: MWriter(mroot)}
    inserted = set()
    dead = set()
    stats = {"ip": 0, "ins": 0, "reset": 0, "nested_depth": 0, "write_after_ip": 0,
             "ins_skipped_cycle": 0, "obs": 0}
    had_ip = set()

    def depth(n):
        d = 0
        while n.parent is not None:
            n = n.parent
            d += 1
        return d

    def observe(step, hid):
        stats["obs"] += 1
        t = be.tree(real[hid])
        mv, mm = model[hid].node.value()
        try:
            rv = t.getvalue()
            out = io.StringIO()
            t.copyto(out)
            rm = list(t.allmarkers())
            re_ = t.empty()
        except Exception as e:
            raise Mismatch("exception", step, "%s: %r" % (type(e).__name__, e))
        if rv != mv:
            raise Mismatch("value-mismatch", step, {"handle": hid, "real": rv, "model": mv})
        if out.getvalue() != rv:
            raise Mismatch("copyto-mismatch", step, {"handle": hid, "copyto": out.getvalue(), "getvalue": rv})
        if [tuple(x) if isinstance(x, (list, tuple)) else x for x in rm] != mm:
            raise Mismatch("markers-mismatch", step, {"handle": hid, "real": rm, "model": mm})
        if len(rm) != rv.count("\n"):
            raise Mismatch("markers-misaligned", step, {"handle": hid, "markers": len(rm), "newlines": rv.count("\n")})
        if bool(re_) != (mv == ""):
            raise Mismatch("empty-mismatch", step, {"handle": hid, "real": re_, "model_value": mv})

    for step, op in enumerate(ops):
        k = op[0]
        if k == "new":
            r = be.new(real[-1])
            real[step] = r
            n = MNode(step)
            if layer == "ccw":
                src = model[-1]
                model[step] = MWriter(n, src.last_pos, src.last_marked, 1)
            else:
                model[step] = MWriter(n)
            continue
        h = op[1]
        if h not in real or h in dead:
            continue  # creating op was removed by minimisation
        R, M = real[h], model[h]
        try:
            if k == "w":
                mk = ("f%d" % op[3], op[3])
                be.write(R, op[2], mk)
                M.node.items.append(("t", op[2], [mk] * op[2].count("\n")))
                if h in had_ip:
                    stats["write_after_ip"] += 1
            elif k == "write":
                R.write(op[2])
                M._w(op[2])
                if h in had_ip:
                    stats["write_after_ip"] += 1
            elif k == "put":
                R.put(op[2])
                M._w(op[2])
                M.bol = 0
            elif k == "putln":
                R.putln(op[2])
                if M.last_pos and M.bol:
                    M.last_marked = M.last_pos[0]
                    M.last_pos = None
                    M._w("\n")
                if op[2]:
                    M._w(op[2])
                    M.bol = 0
                M._w("\n")
                M.bol = 1
                if h in had_ip:
                    stats["write_after_ip"] += 1
            elif k == "mark":
                pos = ("f%d" % op[2], op[3], 0)
                R.mark_pos(pos)
                if not (M.last_marked and M.last_marked[:2] == pos[:2]):
                    M.last_pos = (pos, True)
            elif k == "ip":
                r = R.insertion_point()
                real[step] = r
                n = MNode(step)
                n.parent = M.node
                M.node.items.append(("n", n))
                model[step] = MWriter(n, M.last_pos, M.last_marked, M.bol)
                stats["ip"] += 1
                had_ip.add(h)
                stats["nested_depth"] = max(stats["nested_depth"], depth(n))
            elif k == "ins":
                u = op[2]
                if u not in real or u in inserted or u in dead:
                    continue
                if M.node.root() is model[u].node or u == h:
                    stats["ins_skipped_cycle"] += 1
                    continue
                R.insert(real[u])
                model[u].node.parent = M.node
                M.node.items.append(("n", model[u].node))
                inserted.add(u)
                stats["ins"] += 1
                had_ip.add(h)
            elif k == "commit":
                be.tree(R).commit()
            elif k == "reset":
                be.tree(R).reset()
                for it in M.node.items:
                    if it[0] == "n":
                        it[1].parent = None
                        inserted.add(it[1].ident)   # never re-insert
                M.node.items = []
                stats["reset"] += 1
            elif k == "obs":
                observe(step, h)
        except Mismatch:
            raise
        except Exception as e:
            raise Mismatch("exception", step, "%s %s: %r" % (op, type(e).__name__, e))
        if check_every:
            observe(step, -1)
    observe(len(ops), -1)
    for hid in sorted(real):
        if hid not in dead:
            observe(len(ops), hid)
    if log is not None:
        log.append(model[-1].node.value()[0])
    return stats


# --------------------------------------------------------------------------
# schedule independence: tasks own disjoint insertion points

def gen_tasks(rng, layer):
    nt = rng.randint(2, 4)
    progs = []
    for t in range(nt):
        n = rng.randint(2, 10)
        # task-local handles: 0 = the task's own insertion point
        ops, nh = [], 1
        for _ in range(n):
            r = rng.random()
            h = rng.randrange(nh)
            if r < 0.55:
                if layer == "raw":
                    ops.append(("w", h, rng.choice(TEXTS), rng.randrange(5)))
                else:
                    ops.append(rng.choice([("putln", h, "s%d;" % t), ("write", h, rng.choice(TEXTS)),
                                           ("mark", h, t, rng.randrange(1, 5)), ("put", h, "p%d" % t)]))
            elif r < 0.8:
                ops.append(("ip", h))
                nh += 1
            elif r < 0.9:
                ops.append(("newins", h))   # create a detached tree and insert it here at once
                nh += 1
            else:
                ops.append(("commit", h))
        progs.append(ops)
    return progs


def run_tasks(progs, schedule, layer):
    """Expand per-task programs under a schedule into a global op list and run it."""
    be_ops = []
    # setup: root text, then one insertion point per task with text between
    hmap = []
    for t in range(len(progs)):
        be_ops.append(("w", -1, "R%d\n" % t, 0) if layer == "raw" else ("putln", -1, "R%d;" % t))
        be_ops.append(("ip", -1))
        hmap.append([len(be_ops) - 1])
    be_ops.append(("w", -1, "END\n", 0) if layer == "raw" else ("putln", -1, "END;"))
    pcs = [0] * len(progs)
    for t in schedule:
        if pcs[t] >= len(progs[t]):
            continue
        op = progs[t][pcs[t]]
        pcs[t] += 1
        gh = hmap[t][op[1]]
        if op[0] == "ip":
            be_ops.append(("ip", gh))
            hmap[t].append(len(be_ops) - 1)
        elif op[0] == "newins":
            be_ops.append(("new",))
            u = len(be_ops) - 1
            be_ops.append(("ins", gh, u))
            hmap[t].append(u)
        else:
            be_ops.append((op[0], gh) + tuple(op[2:]))
    return be_ops


def make_schedules(rng, progs):
    total = sum(len(p) for p in progs)
    seq = [t for t, p in enumerate(progs) for _ in p]
    rr = []
    for k in range(max(len(p) for p in progs)):
        rr.extend(t for t, p in enumerate(progs) if k < len(p))
    rnd = list(seq)
    rng.shuffle(rnd)
    rev = list(reversed(seq))
    assert len(rr) == total
    return {"sequential": seq, "round_robin": rr, "random": rnd, "reverse": rev}


# --------------------------------------------------------------------------
# one run

def one_run(check, seed, i, cfg):
    rng = core.rng_for(check, seed, i)
    layer = "raw" if rng.random() < 0.5 else "ccw"
    mode = "shared" if rng.random() < 0.6 else "tasks"
    maxlen = cfg["maxlen"]
    res = {"probes": {}, "faults": {}}
    if mode == "shared":
        ops = gen_ops(rng, rng.randint(3, maxlen), layer)
        case = {"mode": mode, "layer": layer, "ops": ops}
        try:
            st = run_ops(ops, layer)
        except Mismatch as m:
            res["violation"] = {"klass": m.klass, "step": m.step, "detail": m.detail, "case": case}
            st = {}
        res["steps"] = len(ops)
        res["nontrivial"] = st.get("ip", 0) + st.get("ins", 0) >= 1 and st.get("write_after_ip", 0) >= 1
    else:
        progs = gen_tasks(rng, layer)
        scheds = make_schedules(rng, progs)
        case = {"mode": mode, "layer": layer, "progs": progs, "schedules": scheds}
        outs = {}
        st = {}
        try:
            for name, s in scheds.items():
                log = []
                st = run_ops(run_tasks(progs, s, layer), layer, log=log)
                outs[name] = log[0]
            if len(set(outs.values())) != 1:
                res["violation"] = {"klass": "schedule-dependence", "step": -1, "detail": outs, "case": case}
        except Mismatch as m:
            res["violation"] = {"klass": m.klass, "step": m.step, "detail": m.detail, "case": case}
        res["steps"] = sum(len(s) for s in scheds.values())
        res["nontrivial"] = len(set(map(tuple, scheds.values()))) >= 2
    for k in ("ip", "ins", "reset", "write_after_ip", "ins_skipped_cycle", "obs"):
        if st.get(k):
            res["probes"][k] = st[k]
    if st.get("nested_depth", 0) >= 2:
        res["probes"]["nested_ip_depth>=2"] = 1
    res["probes"]["layer_" + layer] = 1
    res["probes"]["mode_" + mode] = 1
    res["digest"] = core.digest(case)
    if i % 997 == 0:
        res["sample"] = case
    return res


# --------------------------------------------------------------------------
# real-compile alignment probe: markers of the real root writer after a real compile

def compile_alignment(src_text, name="m"):
    """Compile src with the staged compiler; return list of problems with the
    root writer's markers vs its output."""
    import os, tempfile, re
    from Cython.Compiler import Code, Main, Options, ModuleNode
    captured = []
    orig = Code.CCodeWriter.copyto

    def cap(self, f):
        captured.append(self)
        return orig(self, f)
    Code.CCodeWriter.copyto = cap
    d = tempfile.mkdtemp(prefix="e9c-", dir=core.workdir())
    try:
        p = os.path.join(d, name + ".pyx")
        with open(p, "w") as f:
            f.write(src_text)
        opts = Options.CompilationOptions(Options.default_options, emit_linenums=False, language_level=3)
        r = Main.compile_single(p, opts, name)
    finally:
        Code.CCodeWriter.copyto = orig
    problems = []
    if not captured:
        return ["no root writer captured (num_errors=%s)" % getattr(r, "num_errors", "?")], 0
    w = captured[-1]
    text = w.getvalue()
    marks = w.buffer.allmarkers()
    lines = text.split("\n")
    if len(marks) != text.count("\n"):
        problems.append("markers %d != newlines %d" % (len(marks), text.count("\n")))
        return problems, len(marks)
    # every code-comment marker '/* "file":N' is written under last_marked_pos == (file, N)
    pat = re.compile(r'^\s*/\* "([^"]+)":(\d+)$')
    checked = 0
    for ln, l in enumerate(lines[:-1]):
        m = pat.match(l)
        if m:
            fn, n = marks[ln]
            desc = fn.get_escaped_description() if hasattr(fn, "get_escaped_description") else fn
            checked += 1
            if (desc, n) != (m.group(1), int(m.group(2))):
                problems.append("C line %d says %s:%s but marker is %s:%s" % (ln + 1, m.group(1), m.group(2), desc, n))
                if len(problems) > 5:
                    break
    import shutil
    shutil.rmtree(d, ignore_errors=True)
    return problems, checked


ALIGN_SRC = [
    "def f(a, b):\n    x = a + b\n    return x * 2\n",
    "cdef class A:\n    cdef int v\n    def __init__(self, v):\n        self.v = v\n    cpdef int get(self):\n        return self.v\n\ndef g():\n    yield 1\n    yield 2\n",
    "import sys\n\ndef h(xs):\n    try:\n        for x in xs:\n            if x:\n                print(x)\n    finally:\n        sys.stdout.flush()\n\nasync def co():\n    return [i for i in range(3)]\n",
]


def _stable_ddmin_ops(ops, still):
    """ddmin where removed ops become ('nop',) so creating-op indices stay valid."""
    idx = list(range(len(ops)))

    def build(keep):
        ks = set(keep)
        return [op if j in ks else ("nop", None) for j, op in enumerate(ops)]
    keep = core.ddmin(idx, lambda k: still(build(k)))
    return build(keep)


def minimise(v):
    case, klass = v["case"], v["klass"]
    if case["mode"] != "shared":
        return v
    layer = case["layer"]

    def still(ops):
        try:
            run_ops(ops, layer)
        except Mismatch as m:
            return m.klass == klass
        return False
    ops = _stable_ddmin_ops(case["ops"], still)
    try:
        run_ops(ops, layer)
        return v
    except Mismatch as m:
        return {"klass": m.klass, "step": m.step, "detail": m.detail,
                "case": dict(case, ops=ops, minimised=True)}


def replay(payload):
    core.use_stage()
    case = payload["case"]
    layer = case["layer"]
    try:
        if case["mode"] == "shared":
            run_ops([tuple(o) for o in case["ops"]], layer)
        elif case["mode"] == "align":
            problems, _ = compile_alignment(case["src"])
            if problems:
                raise Mismatch("real-compile-misaligned", -1, problems)
        else:
            outs = {}
            for name, s in case["schedules"].items():
                log = []
                run_ops(run_tasks([[tuple(o) for o in p] for p in case["progs"]], s, layer), layer, log=log)
                outs[name] = log[0]
            if len(set(outs.values())) != 1:
                raise Mismatch("schedule-dependence", -1, outs)
    except Mismatch as m:
        print("replayed: %s at step %s: %s" % (m.klass, m.step, str(m.detail)[:400]))
        return m.klass == payload.get("klass")
    print("replayed: no violation")
    return False


def check(tier):
    seed = core.env_seed()
    core.use_stage()
    rep = core.Report(PROP, ENGINE, tier, seed)
    rep.rule = ("seeded op histories (write/putln/put/mark_pos/insertion_point/new+insert/commit/reset/observe) on the real "
                "StringIOTree (raw layer) and real CCodeWriter (ccw layer), model compared after every step; 'tasks' mode runs "
                "2-4 writer tasks owning disjoint insertion points under 4 schedules and requires identical output. "
                "non-trivial = at least one insertion point/insert followed by a later write to the parent (shared mode) "
                "or >= 2 distinct schedules (tasks mode); distinct = distinct case digest")
    rep.components = {"real": ["Cython/StringIOTree.py", "Cython/Compiler/Code.py:CCodeWriter write/putln/put/mark_pos/emit_marker/insertion_point/new_writer/insert",
                               "real compile pipeline for the alignment probe"],
                      "stub": ["GlobalState (only code_config + directives)", "scheduler (seeded)"]}
    rep.assumptions = ["emit_code_comments=False and linetrace=False in the synthetic ccw layer (marker text itself is checked by the real-compile probe)",
                       "no fault kinds exist for an in-memory buffer; history/schedule refinement only"]
    budget = core.env_budget(60 if tier == "quick" else 900)
    cfg = {"maxlen": 12 if tier == "quick" else 40}
    import time
    deadline = time.time() + budget
    n = 40000 if tier == "quick" else 10 ** 9
    batch = 40000
    start = 0
    viol = []
    while start < n and time.time() < deadline:
        results = core.run_batch(one_run, PROP, seed, range(start, min(n, start + batch)), cfg, deadline=deadline)
        for i, r in results:
            if "harness_error" in r:
                rep.harness_errors.append(r["harness_error"])
                continue
            rep.absorb(r)
            if "violation" in r:
                viol.append((i, r["violation"]))
        start += batch
        if viol:
            break
    # determinism self-check: re-run 8 seeds in this process, compare digests
    chk = [k for k in (0, 1, 2, 3, 5, 8, 13, 21) if k < start]
    a = [one_run(PROP, seed, k, cfg)["digest"] for k in chk]
    b = [dict(core.run_batch(one_run, PROP, seed, chk, cfg, jobs=2))[k]["digest"] for k in chk]
    rep.determinism = {"seeds": len(chk), "mismatches": sum(x != y for x, y in zip(a, b))}
    if rep.determinism["mismatches"]:
        rep.harness_errors.append("determinism self-check failed")
    # real-compile alignment probe
    nalign = 0
    for src in ALIGN_SRC:
        try:
            problems, checked = compile_alignment(src)
        except Exception as e:
            import traceback
            rep.harness_errors.append("alignment probe: " + traceback.format_exc())
            continue
        nalign += checked
        rep.evaluations += 1
        if problems:
            viol.append((-1, {"klass": "real-compile-misaligned", "step": -1, "detail": problems,
                              "case": {"mode": "align", "layer": "ccw", "src": src}}))
    rep.probes["real_compile_marker_comments_checked"] = nalign
    seen = set()
    for i, v in viol:
        if v["klass"] in seen:
            continue
        seen.add(v["klass"])
        v = minimise(v)
        rep.violation("%s (run %s)" % (v["klass"], i), dict(v, seed=seed, run_index=i))
    rep.extra["simulated_time_s"] = None
    rep.extra["clock"] = "none (no timers in this component)"
    return rep.finish()
