"""E3 gen-history — C23.  Generator / coroutine / async-generator objects from
compiled workload modules are driven through seeded operation histories
(next/send/throw/close/abandon/re-enter; asend/athrow/aclose step by step);
the same source exec'd by CPython with the same history is the model.
"""
import gc
import json
import os
import random
import sys
import time

from . import core, build

PROP = "C23"
ENGINE = "E3-gen-history"

SEAMDIR = os.path.dirname(os.path.abspath(__file__))
# former grammar guard for finding F6 (no break/continue/return lexically inside a finally clause); SIMKIT_GUARD=F6 re-enables it
GUARD_F6 = "F6" in os.environ.get("SIMKIT_GUARD", "").split(",")


# --------------------------------------------------------------------------
# body grammar

class G:
    def __init__(self, rng, kind, idx, nfuncs_before):
        self.rng, self.kind, self.idx, self.before = rng, kind, idx, nfuncs_before
        self.pk = idx * 100
        self.nvars = 0
        self.lines = []

    def p(self):
        self.pk += 1
        return "P(%d)" % self.pk

    def expr(self):
        r = self.rng.random()
        if r < 0.4 or self.nvars == 0:
            return str(self.rng.randint(0, 9))
        if r < 0.8:
            return "v%d" % self.rng.randrange(self.nvars)
        return "(a, v%d)" % self.rng.randrange(self.nvars)

    def newvar(self):
        self.nvars += 1
        return "v%d" % (self.nvars - 1)

    def sub_target(self):
        """expression to delegate to (yield from / await)"""
        r = self.rng.random()
        tag = self.pk + 50
        if self.kind == "gen":
            same = [j for j, k in self.before if k == "gen"]
            if same and r < 0.35:
                return "g%d(%s)" % (self.rng.choice(same), self.expr())
            if r < 0.50:
                return "pygen(%d, %d)" % (tag, self.rng.randint(0, 3))
            if r < 0.62:
                return "iter([%d, %d])" % (tag, tag + 1)
            if r < 0.70:
                return "range(%d)" % self.rng.randint(0, 3)
            return "It(%d, %d, %s, %s, %s, %r)" % (tag, self.rng.randint(0, 3), self.rng.random() < 0.5, self.rng.random() < 0.5,
                                                   self.rng.random() < 0.5, self.rng.choice(["reraise", "reraise", "swallow", "stop"]))
        same = [j for j, k in self.before if k == "coro"]
        if same and r < 0.35:
            return "g%d(%s)" % (self.rng.choice(same), self.expr())
        return "Aw(%d, %d, %r)" % (tag, self.rng.randint(0, 2), self.rng.choice(["ok", "ok", "raise"]))

    def yield_stmt(self, ind):
        r = self.rng.random()
        if self.kind == "coro":
            return ["%s%s = await %s" % (ind, self.newvar(), self.sub_target())]
        if self.kind == "agen" and r < 0.3:
            return ["%s%s = await %s" % (ind, self.newvar(), self.sub_target())]
        if self.kind == "gen" and r < 0.3:
            return ["%s%s = yield from %s" % (ind, self.newvar(), self.sub_target())]
        if r < 0.7:
            e = self.expr()
            return ["%s%s = yield %s" % (ind, self.newvar(), e)]
        return ["%syield %s" % (ind, self.expr())]

    def block(self, depth, ind, in_loop=False, in_finally=False):
        out = []
        n = self.rng.randint(1, 3 if depth else 4)
        for _ in range(n):
            r = self.rng.random()
            if r < 0.22:
                out.append(ind + self.p())
            elif r < 0.50:
                out += self.yield_stmt(ind)
            elif r < 0.68 and depth > 0:
                out += self.try_stmt(depth - 1, ind, in_loop, in_finally)
            elif r < 0.76 and depth > 0:
                v = "i%d" % self.pk
                self.pk += 1
                out.append("%sfor %s in range(%d):" % (ind, v, self.rng.randint(1, 3)))
                out += self.block(depth - 1, ind + "    ", True, in_finally)
            elif r < 0.80 and in_loop and not (in_finally and GUARD_F6):
                # quarantine no_jump_out_of_finally (known finding F6): no break/continue/return inside a finally clause
                out.append("%sif %s: %s" % (ind, self.expr(), self.rng.choice(["break", "continue"])))
            elif r < 0.85 and not (in_finally and GUARD_F6):
                if self.kind == "agen":
                    out.append("%sif %s == 7: return" % (ind, self.expr()))
                else:
                    out.append("%sif %s == 7: return %s" % (ind, self.expr(), self.expr()))
            elif r < 0.90:
                out.append("%sif %s == 3: raise %s(%d)" % (ind, self.expr(), self.rng.choice(["E1", "E2"]), self.pk))
            elif r < 0.95 and depth > 0 and self.kind != "agen":
                out.append("%swith CM(%d, %s):" % (ind, self.pk + 70, self.rng.random() < 0.3))
                out += self.block(depth - 1, ind + "    ", in_loop, in_finally)
            else:
                out.append(ind + self.p())
        return out

    def try_stmt(self, depth, ind, in_loop, in_finally=False):
        out = [ind + "try:"]
        suspend_first = self.rng.random() < 0.4
        if suspend_first:
            # a suspension point directly inside the try: throw()/close() then land in these handlers
            out += self.yield_stmt(ind + "    ")
        out += self.block(depth, ind + "    ", in_loop, in_finally)
        has_handler = False
        if self.rng.random() < 0.75:
            has_handler = True
            for _ in range(self.rng.randint(1, 2)):
                exc = self.rng.choice(["E1", "E2", "(E1, E2)", "(E1, E2)", "GeneratorExit", "BaseException", "StopIteration", "Exception", "Exception", "ValueError"])
                if self.rng.random() < 0.5:
                    out.append("%sexcept %s as e:" % (ind, exc))
                    v = self.newvar()
                    out.append("%s    %s = ('h', type(e).__name__)" % (ind, v))
                else:
                    out.append("%sexcept %s:" % (ind, exc))
                body = self.block(depth, ind + "    ", in_loop, in_finally)
                if suspend_first and self.rng.random() < 0.5:
                    body += self.yield_stmt(ind + "    ")      # handler suspends again: later resumes must reach the body
                r = self.rng.random()
                if r < 0.15:
                    body.append(ind + "    raise")
                out += body
            if self.rng.random() < 0.2:
                out.append(ind + "else:")
                out += self.block(depth, ind + "    ", in_loop, in_finally)
        if not has_handler or self.rng.random() < 0.5:
            out.append(ind + "finally:")
            out += self.block(depth, ind + "    ", in_loop, in_finally=True)
        return out


def gen_function(rng, kind, idx, before):
    g = G(rng, kind, idx, before)
    head = "%sdef g%d(a):" % ("async " if kind in ("coro", "agen") else "", idx)
    body = ["    " + g.p()]
    body += g.block(rng.randint(1, 3), "    ")
    # guarantee the function is of its kind
    if kind == "gen" and not any(" yield" in l or "=yield" in l for l in body):
        body.append("    yield a")
    if kind == "agen" and not any(" yield " in l or l.strip().startswith("yield") for l in body):
        body.append("    yield a")
    if kind == "coro" and not any("await" in l for l in body):
        body.append("    v_last = await Aw(%d, 1)" % (idx * 100 + 99))
    if kind != "agen" and rng.random() < 0.6:
        body.append("    return ('ret', %d, a)" % idx)
    if g.nvars:
        # Cython rejects definitely-unbound reads at compile time; unbound locals are C21's business anyway
        body.insert(0, "    " + " = ".join("v%d" % k for k in range(g.nvars)) + " = None")
    return "\n".join([head] + body)


HEADER = "from simseam import P, X, It, pygen, Aw, CM, E1, E2, E3, Inj\n\n"


def gen_module(rng, nfuncs, kinds=("gen", "gen", "gen", "coro", "agen")):
    funcs, before = [], []
    for k in range(nfuncs):
        kind = rng.choice(kinds)
        funcs.append(gen_function(rng, kind, k, before))
        before.append((k, kind))
    return HEADER + "\n\n\n".join(funcs) + "\n", before


# --------------------------------------------------------------------------
# histories

THROWABLE = ["E1i", "E1c", "E2i", "GEi", "GEc", "SIi", "Inji", "VEc", "E3i"]


def make_throw(x, sm):
    if x == "E1i":
        return (sm.E1(11),)
    if x == "E1c":
        return (sm.E1,)
    if x == "E2i":
        return (sm.E2(22),)
    if x == "E3i":
        return (sm.E3(33),)
    if x == "GEi":
        return (GeneratorExit(),)
    if x == "GEc":
        return (GeneratorExit,)
    if x == "SIi":
        return (StopIteration(5),)
    if x == "Inji":
        return (sm.Inj(7),)
    if x == "VEc":
        return (ValueError,)
    raise ValueError(x)


def gen_history(rng, kinds, maxlen, quarantine=True):
    fi = rng.randrange(len(kinds))
    kind = kinds[fi][1]
    n = rng.randint(1, maxlen)
    ops = []
    started = False
    for k in range(n):
        r = rng.random()
        if r < 0.40:
            op = ["next"]
        elif r < 0.58:
            v = rng.choice([None, 1, 3, 7, "s"])
            op = ["send", v]
        elif r < 0.78:
            op = ["throw", rng.choice(THROWABLE)]
        elif r < 0.88:
            op = ["close"]
        elif r < 0.92:
            op = ["running"]
        else:
            op = ["del"]
        if op[0] in ("next", "send"):
            started = True
        if op[0] in ("throw", "close"):
            started = True     # object is finished/started afterwards either way
        ops.append(op)
        if op[0] == "del":
            break
    plan = {}
    if rng.random() < 0.25:
        plan[str(rng.randrange(0, 6))] = ["raise", rng.choice(["E1", "E2", "Inj", "StopIteration", "GeneratorExit"])]
    if rng.random() < 0.12:
        plan[str(rng.randrange(0, 6))] = [rng.choice(["reenter", "reenter", "xthread"]), rng.choice(["next", "send", "throw", "close"])]
    return {"func": fi, "kind": kind, "arg": rng.choice([0, 1, 3, 7]), "ops": ops, "plan": plan}


def quarantined(h):
    return None


def is_known_f5(h, d):
    """Known finding F5: throw(StopIteration(x)) where CPython's bytecode-level handling of StopIteration at the
    suspension point (un-started frame, or delegation to an iterator without throw()) differs and the compiled
    generator reports RuntimeError('generator raised StopIteration').  Matched narrowly: the first divergent event is
    that throw and the compiled side raised RuntimeError."""
    idx = d[0]
    if idx >= len(h["ops"]) or h["ops"][idx] != ["throw", "SIi"]:
        return False
    return '"RuntimeError"' in json.dumps(d[2][1] if d[2] else None)


def outcome_of(fn, sm):
    try:
        return ("value", sm.norm(fn()))
    except StopIteration as e:
        return ("stop", sm.norm(e.value))
    except StopAsyncIteration:
        return ("astop",)
    except BaseException as e:
        return ("raise",) + sm.describe_exc(e)


def drive(aw_factory, sm, limit=24):
    """Drive an awaitable to completion, recording intermediate yields."""
    out = []
    try:
        it = aw_factory().__await__()
    except BaseException as e:
        return [("raise-on-await",) + sm.describe_exc(e)]
    for _ in range(limit):
        try:
            v = it.send(None)
            out.append(("ayield", sm.norm(v)))
        except StopIteration as e:
            out.append(("aresult", sm.norm(e.value)))
            return out
        except StopAsyncIteration:
            out.append(("astop",))
            return out
        except BaseException as e:
            out.append(("raise",) + sm.describe_exc(e))
            return out
    out.append(("limit",))      # the awaitable is left suspended; the history is cut here (see run_history)
    return out


def f5_guard(obj, kind):
    """Quarantine guard for known finding F5, evaluated on the MODEL object just before a throw(StopIteration):
    True if the object is un-started, or is delegating to something without throw()."""
    import inspect
    try:
        if kind == "gen":
            if inspect.getgeneratorstate(obj) == "GEN_CREATED":
                return True
            yf = obj.gi_yieldfrom
        elif kind == "coro":
            if inspect.getcoroutinestate(obj) == "CORO_CREATED":
                return True
            yf = obj.cr_await
        else:
            fr = obj.ag_frame
            if fr is not None and fr.f_lasti < 0:
                return True
            yf = obj.ag_await
        # follow the delegation chain to the innermost delegate
        for _ in range(20):
            if yf is None:
                return False
            if not hasattr(yf, "throw"):
                return True
            inner = getattr(yf, "gi_yieldfrom", None)
            if inner is None:
                inner = getattr(yf, "cr_await", None)
            if inner is None:
                # an un-started inner generator is the first manifestation again
                try:
                    if inspect.isgenerator(yf) and inspect.getgeneratorstate(yf) == "GEN_CREATED":
                        return True
                except Exception:
                    pass
                return False
            yf = inner
        return False
    except Exception:
        return False


def run_history(mod, h, sm, skips=None, record_skips=None):
    """Execute history h against module mod; returns the trace (list).
    record_skips (model run): list that receives the op indices quarantined by f5_guard;
    skips (SUT run): the same indices are skipped."""
    plan = {int(k): v for k, v in h["plan"].items()}
    sm.reset(plan)
    trace = []
    kind = h["kind"]
    old_hooks = sys.get_asyncgen_hooks()
    if kind == "agen":
        def fin(ag):
            sm.LOG.append(("finalizer",))
            trace.append(("finalizer", drive(lambda: ag.aclose(), sm)))
        sys.set_asyncgen_hooks(firstiter=lambda ag: sm.LOG.append(("firstiter",)), finalizer=fin)
    try:
        obj = getattr(mod, "g%d" % h["func"])(h["arg"])
        sm.CURRENT[0] = obj
        for opi, op in enumerate(h["ops"]):
            k = op[0]
            mark = len(sm.LOG)
            if k == "throw" and op[1] == "SIi":
                begun = any(o[0] == "next" or (o[0] == "send" and o[1] is None) for o in h["ops"][:opi])
                if (record_skips is not None and (not begun or f5_guard(obj, kind))) or (skips is not None and opi in skips):
                    if record_skips is not None:
                        record_skips.append(opi)
                    trace.append(("throw-skipped-F5",))
                    continue
            if k == "del":
                sm.CURRENT[0] = None
                del obj
                gc.collect()
                trace.append(("del", list(sm.LOG[mark:])))
                obj = None
                break
            if kind in ("gen", "coro"):
                if k == "next":
                    o = outcome_of((lambda: next(obj)) if kind == "gen" else (lambda: obj.send(None)), sm)
                elif k == "send":
                    o = outcome_of(lambda: obj.send(op[1]), sm)
                elif k == "throw":
                    o = outcome_of(lambda: obj.throw(*make_throw(op[1], sm)), sm)
                elif k == "close":
                    o = outcome_of(lambda: obj.close(), sm)
                else:
                    o = ("running", bool(obj.gi_running if kind == "gen" else obj.cr_running))
            else:
                if k == "next":
                    o = drive(lambda: obj.__anext__(), sm)
                elif k == "send":
                    o = drive(lambda: obj.asend(op[1]), sm)
                elif k == "throw":
                    o = drive(lambda: obj.athrow(*make_throw(op[1], sm)), sm)
                elif k == "close":
                    o = drive(lambda: obj.aclose(), sm)
                else:
                    o = ("running", bool(obj.ag_running))
            trace.append((k, o, list(sm.LOG[mark:])))
            if isinstance(o, list) and o and o[-1] == ("limit",):
                # an awaitable that yields forever to the driver: what happens to the half-driven awaitable afterwards is not compared
                trace.append(("history-cut-at-driver-limit",))
                sm.CURRENT[0] = None
                return json.loads(json.dumps(trace))
        if obj is not None:
            mark = len(sm.LOG)
            sm.CURRENT[0] = None
            del obj
            gc.collect()
            # delegates kept alive a little longer (CPython: frames referenced by the traceback of an unraisable
            # 'ignored GeneratorExit' error) are finalised by further collections; their events belong to this run
            gc.collect()
            gc.collect()
            trace.append(("final-del", list(sm.LOG[mark:])))
    finally:
        sm.CURRENT[0] = None
        if kind == "agen":
            sys.set_asyncgen_hooks(*old_hooks)
    return json.loads(json.dumps(trace))


# --------------------------------------------------------------------------
# per-process workload state

_loaded = {}


def load_pair(modspec):
    """modspec: {name, src, so} -> (compiled module, model module, simseam)"""
    key = modspec["name"]
    if key not in _loaded:
        if SEAMDIR not in sys.path:
            sys.path.insert(0, SEAMDIR)
        import simseam
        sut = build.load_ext(modspec["name"], modspec["so"])
        model = build.load_py(modspec["name"] + "_model", modspec["src"])
        _loaded[key] = (sut, model, simseam)
    return _loaded[key]


FINALIZER_EVENTS = ("pygen.finally", "aw.finally")


def lifetime_normalised(trace):
    """Move 'finally' events of delegate objects (which also fire when the delegate is merely deallocated) out of
    the ordered trace into a sorted multiset: exactly-once is still checked, the moment of deallocation is not
    (CPython keeps frames alive through tracebacks; compiled generators have no frame objects)."""
    fin = []

    def walk(x):
        if isinstance(x, list):
            if len(x) >= 1 and isinstance(x[0], str) and x[0] in FINALIZER_EVENTS:
                fin.append(json.dumps(x))
                return None
            out = []
            for y in x:
                w = walk(y)
                if w is not None or not (isinstance(y, list) and y and isinstance(y[0], str) and y[0] in FINALIZER_EVENTS):
                    out.append(w)
            return out
        return x
    t = walk(trace)
    return [t, sorted(fin)]


def _starts(trace):
    """multiset of delegate starts per finalizer event: 'aw.start' tag -> 'aw.finally' tag, 'pygen.start' -> 'pygen.finally'"""
    out = {}

    def walk(x):
        if isinstance(x, list):
            if len(x) >= 2 and x[0] in ("aw.start", "pygen.start"):
                k = json.dumps([x[0].replace(".start", ".finally")] + list(x[1:]))
                out[k] = out.get(k, 0) + 1
                return
            for y in x:
                walk(y)
    walk(trace)
    return out


def first_diff(a, b):
    """a = model trace, b = trace of the compiled object"""
    d = _first_diff(a, b)
    if d is None:
        return None
    na, nb = lifetime_normalised(a), lifetime_normalised(b)
    if na == nb:
        return ("lifetime-only",)
    if na[0] == nb[0]:
        # Only the finalisation of delegates differs.  CPython may keep a started delegate alive beyond the end of the run
        # (frames referenced by the traceback of an unraisable error), so the model can show FEWER finalisations; the compiled
        # object must show at least those, and never more than one per started delegate (exactly-once).
        ca, cb = {}, {}
        for k in na[1]:
            ca[k] = ca.get(k, 0) + 1
        for k in nb[1]:
            cb[k] = cb.get(k, 0) + 1
        starts = _starts(b)
        if all(cb.get(k, 0) >= n for k, n in ca.items()) and all(n <= starts.get(k, 0) for k, n in cb.items()):
            return ("lifetime-only",)
    return d


def _first_diff(a, b):
    for i, (x, y) in enumerate(zip(a, b)):
        if x != y:
            return i, x, y
    if len(a) != len(b):
        i = min(len(a), len(b))
        return i, (a[i] if i < len(a) else None), (b[i] if i < len(b) else None)
    return None


def one_run(check, seed, i, cfg):
    mods = cfg["modules"]
    ms = mods[i % len(mods)]
    sut, model, sm = load_pair(ms)
    rng = core.rng_for(check, seed, i)
    res = {"probes": {}, "faults": {}, "n": 0, "nontrivial_digests": [], "steps": 0}
    for j in range(cfg["histories_per_run"]):
        h = gen_history(rng, ms["kinds"], cfg["maxlen"])
        sk = []
        t_model = run_history(model, h, sm, record_skips=sk)
        mon = None
        if cfg.get("observer"):
            from . import tracemon
            mon = tracemon.make(("profile", "trace", "both")[(i + j) % 3], ms["name"] + ".py", ms.setdefault("spans", tracemon.function_spans(ms["src"])),
                                   ms.setdefault("f19", sorted(tracemon.funcs_returning_inside_try_finally(ms["src"]))))
            mon.install()
        try:
            t_sut = run_history(sut, h, sm, skips=set(sk))
        finally:
            obs_problems = mon.finish() if mon else []
        if mon:
            res["probes"]["events_" + mon.mode] = res["probes"].get("events_" + mon.mode, 0) + mon.events
            res["probes"]["line_events"] = res["probes"].get("line_events", 0) + mon.line_events
            if mon.known_f19:
                res["probes"]["known_F19_return_event_before_finally"] = res["probes"].get("known_F19_return_event_before_finally", 0) + 1
            if obs_problems and "violation" not in res:
                res["violation"] = {"klass": "trace-events:" + obs_problems[0]["what"], "detail": {"mode": mon.mode, "problems": obs_problems},
                                    "history": h, "module": ms["name"], "src": ms["src"], "observer_mode": mon.mode}
        if sk:
            res["probes"]["quarantined_F5_throws"] = res["probes"].get("quarantined_F5_throws", 0) + len(sk)
        res["n"] += 1
        res["steps"] += len(h["ops"])
        if cfg.get("no_abandon_compare"):
            # known finding F21 (Limited API cell): abandoned objects get no cleanup at all; compared without the abandonment events
            strip = lambda tr: [e for e in tr if not (isinstance(e, list) and e and e[0] in ("del", "final-del", "finalizer"))]
            if strip(t_model) == strip(t_sut) and t_model != t_sut:
                res["probes"]["known_F21_no_cleanup_on_abandon_in_limited_api"] = res["probes"].get("known_F21_no_cleanup_on_abandon_in_limited_api", 0) + 1
            t_model, t_sut = strip(t_model), strip(t_sut)
        d = first_diff(t_model, t_sut)
        if d == ("lifetime-only",):
            res["probes"]["delegate_dealloc_order_only_diffs"] = res["probes"].get("delegate_dealloc_order_only_diffs", 0) + 1
            d = None
        flat = json.dumps(t_model)
        for name, pat in (("throw_while_delegating", '"it.throw"'), ("close_reaches_delegate", '"it.close"'), ("reentry_refused", '"reenter-raised"'), ("cross_thread_resume_refused", '"xthread-raised"'),
                          ("pygen_finally_ran", '"pygen.finally"'), ("asyncgen_finalizer", '"finalizer"'), ("await_path", '"aw.start"'),
                          ("injected_raise_in_body", '"inject"')):
            if pat in flat:
                res["probes"][name] = res["probes"].get(name, 0) + 1
        if h["plan"]:
            for a in h["plan"].values():
                res["faults"][a[0]] = res["faults"].get(a[0], 0) + 1
        ops = [o[0] for o in h["ops"]]
        for o in ops:
            if o in ("throw", "close", "del"):
                res["faults"][o] = res["faults"].get(o, 0) + 1
        if len(ops) >= 2 and any(o in ("throw", "close", "del") for o in ops):
            res["nontrivial_digests"].append(core.digest([ms["name"], h]))
        if d is not None and "violation" not in res and not cfg.get("observer"):
            res["violation"] = {"klass": "trace-differs-from-cpython", "detail": {"event": d[0], "model": d[1], "sut": d[2]},
                                "history": h, "module": ms["name"], "src": ms["src"]}
        if j == 0 and i % 400 == 0:
            res["sample"] = {"module": ms["name"], "history": h, "trace": t_model[:4]}
    return res


# --------------------------------------------------------------------------

def build_modules(seed, nmods, nfuncs, tag, cflags=(), directives=None):
    specs, metas = [], []
    for m in range(nmods):
        rng = core.rng_for("C23-module", seed, m)
        src, kinds = gen_module(rng, nfuncs)
        name = "wl23_%s_%d_%d" % (tag, seed, m)
        specs.append({"name": name, "src": src, "ext": ".py", "cflags": tuple(cflags), "directives": directives})
        metas.append({"name": name, "src": src, "kinds": kinds})
    sos = build.build_many(specs)
    out = []
    errors = []
    for meta, so in zip(metas, sos):
        if isinstance(so, Exception):
            errors.append(str(so)[-800:])
            continue
        meta["so"] = so
        out.append(meta)
    return out, errors


def run_single(modspec, h):
    """(for minimisation/replay) returns diff or None; run in a forked child."""
    sut, model, sm = load_pair(modspec)
    raw = bool(os.environ.get("SIMKIT_RAW_REPLAY"))
    sk = []
    t_model = run_history(model, h, sm, record_skips=None if raw else sk)
    t_sut = run_history(sut, h, sm, skips=None if raw else set(sk))
    d = first_diff(t_model, t_sut)
    if d == ("lifetime-only",):
        d = None
    return None if d is None else {"event": d[0], "model": d[1], "sut": d[2]}


def minimise(v, modspec):
    h = v["history"]

    def fails(hh):
        if quarantined(hh):
            return False        # shrinking must not wander into a listed known finding
        st, r = core.run_one_forked(run_single, modspec, hh, timeout=30)
        return st == "crash" or (st == "ok" and r is not None)
    ops = core.ddmin(h["ops"], lambda ops: fails(dict(h, ops=ops)), max_tests=40)
    h2 = dict(h, ops=ops)
    if h2["plan"] and fails(dict(h2, plan={})):
        h2 = dict(h2, plan={})
    st, r = core.run_one_forked(run_single, modspec, h2, timeout=30)
    if st == "ok" and r is not None:
        return dict(v, history=h2, detail=r, minimised=True)
    if st == "crash":
        return dict(v, history=h2, detail={"crash": r}, klass="crash", minimised=True)
    return v


def replay(payload):
    if payload.get("family") == "E3b":
        from . import e3_async
        return e3_async.replay(payload)
    return _replay_histories(payload)


def _replay_histories(payload):
    core.stage()
    name = payload["module"] + "_replay"
    src = payload["src"]
    so = build.build_ext(name, src, ".py", cflags=tuple(payload.get("cflags", ())), directives=payload.get("directives"))
    ms = {"name": name, "src": src, "so": so}
    if payload.get("raw"):
        os.environ["SIMKIT_RAW_REPLAY"] = "1"      # a known-finding witness is replayed without its own suppression rule
    try:
        st, r = core.run_one_forked(run_single, ms, payload["history"], timeout=60)
    finally:
        os.environ.pop("SIMKIT_RAW_REPLAY", None)
    print("replayed: %s %s" % (st, json.dumps(r)[:600] if r is not None else None))
    if payload.get("klass") == "crash":
        return st == "crash"
    return st == "crash" or (st == "ok" and r is not None)


def explore(rep, seed, tier, tag, cflags=(), directives=None, budget=None, nruns=None, extra_cfg=None, nmods=None, prop=None):
    """Shared by C23 and the riders: build modules, run histories, collect violations."""
    nmods = nmods or (6 if tier == "quick" else 16)
    mods, errors = build_modules(seed, nmods, 16, tag, cflags, directives)
    for e in errors:
        rep.probes["workload_modules_not_built"] = rep.probes.get("workload_modules_not_built", 0) + 1
        sys.stderr.write("workload build failed (dropped): %s\n" % e[-400:])
    if not mods:
        rep.harness_errors.append("no workload module could be built: %s" % (errors[:1],))
        return [], mods
    cfg = {"modules": mods, "histories_per_run": 50, "maxlen": 8 if tier == "quick" else 12, "case_timeout_s": 60}
    cfg.update(extra_cfg or {})
    deadline = time.time() + budget
    n = nruns or (1600 if tier == "quick" else 10 ** 8)
    batch = 1600 if tier == "quick" else 16000
    start, viol = 0, []
    while start < n and time.time() < deadline:
        results = core.run_forked(one_run, prop or PROP, seed, range(start, min(n, start + batch)), cfg, deadline=deadline)
        for i, r in results:
            if "crash" in r:
                viol.append((i, {"klass": "crash", "detail": {"signal": r["crash"]}, "run_index": i, "module": mods[i % len(mods)]["name"],
                                 "src": mods[i % len(mods)]["src"], "history": None}))
                continue
            if "harness_error" in r:
                rep.harness_errors.append(r["harness_error"])
                continue
            rep.absorb(r)
            if "violation" in r:
                viol.append((i, r["violation"]))
        start += batch
        if viol:
            break
    return viol, mods


def recover_crash_history(seed, i, cfg, mods):
    """A crashed run: find which of its histories crashes by re-running them one by one in forks."""
    ms = mods[i % len(mods)]
    rng = core.rng_for(PROP, seed, i)
    for j in range(cfg["histories_per_run"]):
        h = gen_history(rng, ms["kinds"], cfg["maxlen"])
        st, r = core.run_one_forked(run_single, ms, h, timeout=30)
        if st == "crash":
            return h
    return None


def check(tier):
    seed = core.env_seed()
    core.stage()
    rep = core.Report(PROP, ENGINE, tier, seed)
    rep.rule = ("generated generator / coroutine / async-generator bodies (yield, x = yield, yield from compiled/Python generators/plain iterators with "
                "optional send/throw/close, await of scripted awaitables, try/except/else/finally around suspension points, loops, with, return values, probes) "
                "x seeded operation histories of length <= 8 (next, send, throw of 9 exception forms, close, gi_running, abandon = del + gc.collect; asend/athrow/aclose "
                "driven step by step; asyncgen finalizer hook) x fault plans (probe raises inside the body, re-entrant resume from inside the body). "
                "model = same source and history under CPython. non-trivial = history of >= 2 ops containing throw/close/abandon; distinct = (module, history) digest. "
                "Second part (E3b): generated coroutine/async-generator modules run by the real asyncio Task machinery on a virtual-time loop under seeded schedules "
                "(cancel the root task at virtual time t, up to 3 times; probe raises / self-cancels) with wait_for, asyncio.timeout, gather, shield, child tasks, async with/for, "
                "awaits inside except CancelledError and finally; trace with virtual timestamps and final outcome must equal CPython's under the same loop and schedule")
    rep.components = {"real": ["generated C for generators/coroutines/async generators", "Cython/Utility/Coroutine.c", "Cython/Utility/AsyncGen.c", "CPython 3.12 runtime"],
                      "stub": ["delegation targets and awaitables (simseam.It / pygen / Aw)", "history part: driver loop instead of an event loop", "asyncio part: real asyncio Task/Future/timeouts/gather on a loop whose selector never blocks and whose clock is virtual"]}
    rep.assumptions = ["__cause__/__context__ of exceptions are not part of the compared trace (not listed by the statement; CPython attaches implementation-specific context when throwing into a finished generator)",
                       "message text of builtin exceptions is not compared, only the type", "CPython 3.12.1 is the reference"]
    rep.quarantined = ["F5: throw(StopIteration) is skipped (in model and SUT alike) when the model object is un-started or delegating to an object without throw(); counted in probes.quarantined_F5_throws"]
    budget = core.env_budget(50 if tier == "quick" else 900)
    viol, mods = explore(rep, seed, tier, "base", budget=budget * 0.7)
    modmap = {m["name"]: m for m in mods}
    # E3b: the same kinds of objects under the real asyncio Task machinery on a virtual-time event loop (cancellation at seeded
    # virtual times, wait_for / asyncio.timeout, gather, shield, async with / async for, awaits inside except/finally)
    from . import e3_async
    violb, modsb, cfgb = e3_async.explore(rep, PROP, seed, tier, "base", budget=budget * 0.3)
    modmapb = {m["name"]: m for m in modsb}
    seenb = set()
    for i, v in violb:
        if v["klass"] == "crash" and v.get("scenario") is None:
            v["scenario"] = e3_async.recover_crash(seed, i, cfgb, modsb, PROP)
            if v["scenario"] is None:
                rep.harness_errors.append("E3b run %d crashed a worker but no single scenario reproduces it" % i)
                continue
        if v["klass"] in seenb:
            continue
        seenb.add(v["klass"])
        v = e3_async.minimise(v, modmapb[v["module"]])
        rep.violation("%s (asyncio run %s): %s" % (v["klass"], i, json.dumps(v["detail"])[:300]), dict(v, seed=seed, run_index=i))
    if modsb:
        a = dict(core.run_forked(e3_async.one_run, PROP, seed, range(6), cfgb, jobs=2))
        b = dict(core.run_forked(e3_async.one_run, PROP, seed, range(6), cfgb, jobs=3))
        rep.extra["determinism_selfcheck_asyncio"] = {"seeds": 6, "mismatches": sum(core.digest(a[k]) != core.digest(b[k]) for k in range(6))}
        if rep.extra["determinism_selfcheck_asyncio"]["mismatches"]:
            rep.harness_errors.append("determinism self-check of the asyncio sub-engine failed")
    core.replay_known(PROP, replay, rep)
    # determinism self-check: same runs twice, in separate forks
    if mods:
        cfg = {"modules": mods, "histories_per_run": 50, "maxlen": 8, "case_timeout_s": 60}
        a = dict(core.run_forked(one_run, PROP, seed, range(8), cfg, jobs=2))
        b = dict(core.run_forked(one_run, PROP, seed, range(8), cfg, jobs=4))
        mism = sum(core.digest(a[k]) != core.digest(b[k]) for k in range(8))
        rep.determinism = {"seeds": 8, "mismatches": mism}
        if mism:
            rep.harness_errors.append("determinism self-check failed")
    seen = set()
    for i, v in viol:
        if v["klass"] == "crash" and v.get("history") is None:
            cfg = {"modules": mods, "histories_per_run": 50, "maxlen": 8 if tier == "quick" else 12}
            v["history"] = recover_crash_history(seed, i, cfg, mods)
            if v["history"] is None:
                rep.harness_errors.append("run %d crashed a worker but no single history reproduces it" % i)
                continue
        key = v["klass"]
        if key in seen:
            continue
        seen.add(key)
        v = minimise(v, modmap[v["module"]])
        rep.violation("%s (run %s): %s" % (v["klass"], i, json.dumps(v["detail"])[:300]), dict(v, seed=seed, run_index=i))
    rep.extra["clock"] = "history part: none (driver loop); asyncio part: virtual time owned by simasync.VirtualLoop (sleeps/timeouts of 0-2 s, watchdog at 60 s, all simulated)"
    return rep.finish()
