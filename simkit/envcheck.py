"""setup_cmd: verify the toolchain the checks rely on; build nothing persistent."""
import os
import shutil
import subprocess
import sys
import tempfile


def main():
    ok = True

    def need(cond, what):
        nonlocal ok
        print(("ok   " if cond else "MISSING ") + what)
        ok = ok and cond
    need(sys.version_info[:2] >= (3, 8), "python %s" % sys.version.split()[0])
    need(shutil.which("gcc") is not None, "gcc")
    need(shutil.which("git") is not None, "git")
    need(os.path.isdir(os.environ.get("VERIF_REPO", "/repo") + "/Cython"), "/repo/Cython")
    d = tempfile.mkdtemp(prefix="simkit-env-")
    try:
        src = os.path.join(d, "t.c")
        with open(src, "w") as f:
            f.write("#include <Python.h>\nint main(void){return 0;}\n")
        import sysconfig
        inc = sysconfig.get_paths()["include"]
        r = subprocess.run(["gcc", "-c", "-fopenmp", "-I", inc, src, "-o", os.path.join(d, "t.o")],
                           capture_output=True, text=True)
        need(r.returncode == 0, "gcc -fopenmp + Python.h (%s)" % inc)
    finally:
        shutil.rmtree(d, ignore_errors=True)
    return 0 if ok else 2
