"""E4 fault-plan — C22 (exception handling semantics) and C44-part (traceback
function/line chain).  Generated functions built from nests of
try/except/else/finally, with, loops with break/continue/return, raise /
raise-from / bare raise, except*; every leaf is a probe.  The program is fixed
at build time: WHAT FAILS WHERE is decided at run time by the fault plan
(probe occurrence -> exception to raise), so one compile serves thousands of
plans.  Model: the same source and plan under CPython.
"""
import json
import os
import sys
import time
import traceback

from . import core, build

ENGINE = "E4-fault-plan"
SEAMDIR = os.path.dirname(os.path.abspath(__file__))

EXC_CATALOGUE = ["E1", "E2", "E3", "Inj", "KeyError", "StopIteration", "EG"]

# former generator guards for findings F6 (jumps inside finally) and F26 (return through finally inside a handler): both
# repaired in /repo (5413ac279) for ordinary functions, so the guards are off; SIMKIT_GUARD=F6,F26 switches them back on
QUARANTINE = {k: k in os.environ.get("SIMKIT_GUARD", "").split(",") for k in ("F6", "F26")}


# --------------------------------------------------------------------------
# grammar

class G:
    def __init__(self, rng, idx, star):
        self.rng, self.idx, self.star = rng, idx, star
        self.pk = idx * 100
        self.lines = []

    def p(self):
        self.pk += 1
        return "P(%d)" % self.pk

    def x(self):
        self.pk += 1
        return "X(%d)" % self.pk

    def block(self, depth, ind, in_loop=False, in_finally=False, in_handler=False, noret=False):
        """noret: inside a try statement that has a finally clause and is itself lexically inside an except handler
        (quarantine F26: a 'return' there releases the handler's saved exception although the finally clause may override the return)"""
        out = []
        n = self.rng.randint(1, 3)
        for _ in range(n):
            r = self.rng.random()
            if r < 0.29:
                out.append(ind + self.p())
            elif r < 0.34 and depth > 0 and not self.star:
                out += self.jump_nest(ind, in_handler)
            elif r < 0.34:
                out.append(ind + self.p())
            elif r < 0.62 and depth > 0:
                out += self.try_stmt(depth - 1, ind, in_loop, in_finally, in_handler, noret)
            elif r < 0.70 and depth > 0:
                v = "i%d" % self.pk
                self.pk += 1
                out.append("%sfor %s in range(%d):" % (ind, v, self.rng.randint(1, 2)))
                out += self.block(depth - 1, ind + "    ", True, in_finally, in_handler, noret)
            elif r < 0.75 and in_loop and not (in_finally and QUARANTINE["F6"]) and not self.star:
                # quarantine no_jump_out_of_finally (F6): no break/continue/return lexically inside finally
                out.append("%sif a == %d: %s" % (ind, self.rng.randint(0, 2), self.rng.choice(["break", "continue"])))
            elif r < 0.81 and not (in_finally and QUARANTINE["F6"]) and not self.star and not (noret and QUARANTINE["F26"]):
                out.append("%sif a == %d: return %d" % (ind, self.rng.randint(0, 2), self.pk))
            elif r < 0.87:
                k = self.rng.random()
                e = self.rng.choice(["E1", "E2", "E3"])
                if k < 0.5:
                    out.append("%sif a == %d: raise %s(%d)" % (ind, self.rng.randint(0, 2), e, self.pk))
                elif k < 0.75:
                    out.append("%sif a == %d: raise %s(%d) from %s" % (ind, self.rng.randint(0, 2), e, self.pk,
                                                                      self.rng.choice(["None", "E2(%d)" % (self.pk + 1)])))
                elif in_handler:
                    out.append("%sif a == %d: raise" % (ind, self.rng.randint(0, 2)))
                else:
                    out.append(ind + self.p())
            elif r < 0.93 and depth > 0:
                out.append("%swith CM(%d, %s, %s, %s):" % (ind, self.pk + 70, self.rng.random() < 0.3, self.rng.random() < 0.1, self.rng.random() < 0.15))
                out += self.block(depth - 1, ind + "    ", in_loop, in_finally, in_handler, noret)
            else:
                out.append(ind + self.p())
        if not (in_finally and QUARANTINE["F6"]) and not self.star and self.rng.random() < 0.10:
            # an unconditional jump as the last statement of the block (the block "is a terminator" for the code generator);
            # never lexically inside finally (quarantine F6)
            ch = ["raise %s(%d)" % (self.rng.choice(["E1", "E2", "E3"]), self.pk)] + ([] if (noret and QUARANTINE["F26"]) else ["return %d" % self.pk])
            if in_loop:
                ch += ["break", "continue"]
            if in_handler:
                ch += ["raise", "raise"]
            out.append(ind + self.rng.choice(ch))
        return out

    def jump_nest(self, ind, in_handler):
        """for/else or while/else whose break / continue sits under 1-3 levels of try/finally, try/except or with; the else
        clause often ends in raise / return, so what runs after the loop is reachable only through the (deeply nested) break"""
        rng = self.rng
        v = "j%d" % self.pk
        self.pk += 1
        out = []
        if rng.random() < 0.6:
            out.append("%sfor %s in range(2):" % (ind, v))
        else:
            out.append("%s%s = 0" % (ind, v))
            out.append("%swhile %s < 2:" % (ind, v))
            out.append("%s    %s += 1" % (ind, v))
        cur = ind + "    "
        closers = []
        for _ in range(rng.randint(1, 3)):
            k = rng.random()
            if k < 0.45:
                out.append(cur + "try:")
                closers.append((cur, "finally"))
            elif k < 0.6:
                out.append(cur + "try:")
                closers.append((cur, "except"))
            else:
                out.append("%swith CM(%d, %s, False, False):" % (cur, self.pk + 70, rng.random() < 0.3))
                closers.append((cur, None))
            cur += "    "
        out.append(cur + self.p())
        jump = rng.choice(["break", "break", "continue"])
        out.append("%sif a == %d: %s" % (cur, rng.randint(0, 2), jump) if rng.random() < 0.8 else cur + jump)
        if not out[-1].strip().startswith(("break", "continue")):
            out.append(cur + self.p())
        for c, kind in reversed(closers):
            if kind == "finally":
                out.append(c + "finally:")
                out.append(c + "    " + self.x())
            elif kind == "except":
                out.append(c + "except %s:" % rng.choice(["E1", "E2", "Exception"]))
                out.append(c + "    " + self.x())
        if rng.random() < 0.75:
            out.append(ind + "else:")
            out.append(ind + "    " + self.p())
            k = rng.random()
            if k < 0.35:
                out.append("%s    raise %s(%d)" % (ind, rng.choice(["E1", "E2", "E3"]), self.pk))
            elif k < 0.7:
                out.append("%s    return %d" % (ind, self.pk))
            elif k < 0.8 and in_handler:
                out.append(ind + "    raise")
        out.append(ind + self.p())
        return out

    def try_stmt(self, depth, ind, in_loop, in_finally, in_handler=False, noret=False):
        out = [ind + "try:"]
        out.append(ind + "    " + self.p())
        will_handle = self.rng.random() < 0.8
        will_finally = (not will_handle) or self.rng.random() < 0.5
        noret = noret or (will_finally and in_handler)
        out += self.block(depth, ind + "    ", in_loop, in_finally, in_handler, noret)
        has_handler = False
        if will_handle:
            has_handler = True
            kw = "except*" if self.star else "except"
            used = set()
            for _ in range(self.rng.randint(1, 2)):
                choices = ["E1", "E2", "(E1, E2)", "E3", "Exception", "KeyError"] if self.star else \
                          ["E1", "E2", "(E1, E2)", "E3", "BaseException", "Exception", "KeyError", "StopIteration", "Inj"]
                exc = self.rng.choice([c for c in choices if c not in used] or choices)
                used.add(exc)
                if not self.star and self.rng.random() < 0.12:
                    # handlers that swallow silently: bare 'except:' / empty body (compiled code takes a shortcut for them)
                    out.append("%sexcept%s:" % (ind, "" if self.rng.random() < 0.6 else " " + exc))
                    out.append("%s    pass" % ind)
                    if out[-2].strip() == "except:":
                        break       # a bare except must be the last handler
                    continue
                if self.rng.random() < 0.5:
                    out.append("%s%s %s as e:" % (ind, kw, exc))
                    out.append("%s    %s" % (ind, self.x()))
                else:
                    out.append("%s%s %s:" % (ind, kw, exc))
                    out.append("%s    %s" % (ind, self.x()))
                out += self.block(depth, ind + "    ", in_loop and not self.star, in_finally, in_handler=True, noret=noret)
            if self.rng.random() < 0.25 and not self.star:
                out.append(ind + "else:")
                out += self.block(depth, ind + "    ", in_loop, in_finally, in_handler, noret)
        if will_finally:
            out.append(ind + "finally:")
            if not self.star and self.rng.random() < 0.18:
                # a finally clause that cannot fail as a whole: its only statement swallows every error of the cleanup
                out.append("%s    try:" % ind)
                for _ in range(self.rng.randint(1, 2)):
                    out.append("%s        %s" % (ind, self.p()))
                out.append("%s    except:" % ind)
                out.append("%s        pass" % ind)
                return out
            out.append("%s    %s" % (ind, self.x()))
            # quarantine F26: no bare 'raise' directly in a finally clause (only inside handlers nested in it)
            out += self.block(depth, ind + "    ", in_loop, True, False if QUARANTINE["F26"] else in_handler)
        return out


STAR_RATE = [0.0]      # except* sub-grammar (tier B) is generated in its own modules


def gen_function(rng, idx):
    star = rng.random() < STAR_RATE[0]
    g = G(rng, idx, star)
    body = ["    " + g.p()]
    body += g.block(rng.randint(2, 3), "    ")
    body.append("    " + g.p())
    body.append("    return ('end', %d)" % idx)
    return "def f%d(a):\n" % idx + "\n".join(body)


HEADER = "from simseam import P, X, CM, E1, E2, E3, Inj\n\n"


def gen_module(rng, nfuncs):
    return HEADER + "\n\n\n".join(gen_function(rng, k) for k in range(nfuncs)) + "\n"


# --------------------------------------------------------------------------
# running one (function, arg, plan)

def tb_chain(e, fname_suffixes):
    """(co_name, lineno) entries of e's traceback that belong to the workload file."""
    out = []
    tb = e.__traceback__
    while tb is not None:
        co = tb.tb_frame.f_code
        base = os.path.basename(co.co_filename)
        if base.startswith("wl22_") or base.startswith("wit22"):
            # compiled code names traceback entries "module.function" by design; compare the function part
            out.append((co.co_name.rsplit(".", 1)[-1], tb.tb_lineno))
        tb = tb.tb_next
    return out


def run_case(mod, fi, arg, plan, sm):
    sm.reset({int(k): v for k, v in plan.items()})
    fn = getattr(mod, "f%d" % fi)
    tbinfo = None
    try:
        out = ("value", sm.norm(fn(arg)))
    except BaseException as e:
        out = ("raise", sm.exc_chain(e))
        tbinfo = tb_chain(e, None)
        del e
    after = sys.exc_info()[1]
    res = {"outcome": out, "log": list(sm.LOG), "exc_info_after": sm.exc_chain(after), "nprobes": sm.COUNT[0]}
    return json.loads(json.dumps(res)), tbinfo


_loaded = {}


def load_pair(ms):
    if ms["name"] not in _loaded:
        if SEAMDIR not in sys.path:
            sys.path.insert(0, SEAMDIR)
        import simseam
        sut = build.load_ext(ms["name"], ms["so"])
        import types
        model = types.ModuleType(ms["name"] + "_model")
        # same file name as the compiled module reports, so tracebacks are comparable
        exec(compile(ms["src"], ms["name"] + ".py", "exec"), model.__dict__)
        _loaded[ms["name"]] = (sut, model, simseam)
    return _loaded[ms["name"]]


def compare(ms, fi, arg, plan, sm_pair, check_tb, observer=None):
    sut, model, sm = sm_pair
    rm, tbm = run_case(model, fi, arg, plan, sm)
    if observer is not None:
        observer.install()
    try:
        rs, tbs = run_case(sut, fi, arg, plan, sm)
    finally:
        if observer is not None:
            observer.result = observer.finish()
    d = None
    if rm["log"] != rs["log"]:
        k = 0
        while k < min(len(rm["log"]), len(rs["log"])) and rm["log"][k] == rs["log"][k]:
            k += 1
        d = {"what": "blocks-or-exc_info-log", "event": k, "model": rm["log"][k:k + 2], "sut": rs["log"][k:k + 2]}
    elif rm["outcome"] != rs["outcome"]:
        d = {"what": "outcome", "model": rm["outcome"], "sut": rs["outcome"]}
    elif rm["exc_info_after"] != rs["exc_info_after"]:
        d = {"what": "exc_info-after-call", "model": rm["exc_info_after"], "sut": rs["exc_info_after"]}
    tbd = None
    if check_tb and d is None and tbm is not None and tbs is not None:
        # the compiled traceback has no entry for the CPython caller frames; both lists are restricted to the workload file
        if [tuple(x) for x in tbm] != [tuple(x) for x in tbs]:
            tbd = {"what": "traceback-chain", "model": tbm, "sut": tbs}
            if is_known_f16(tbm, tbs) or is_known_f16b(ms["src"], tbm, tbs):
                tbd = {"what": "known-F16"}
    return rm, d, tbd


def is_known_f16(tbm, tbs):
    """Known finding F16: a re-raise (bare 'raise', or an exception passing through 'except ... as e') makes compiled
    code add a second traceback entry for the same function activation (the line of the re-raise) in front of
    the entry CPython also has.  Matched narrowly: CPython's chain is a subsequence of the compiled chain, the
    extra entries name a function that the chain already contains, and the innermost entry is identical."""
    tbm = [tuple(x) for x in tbm]
    tbs = [tuple(x) for x in tbs]
    if not tbm or not tbs or len(tbs) <= len(tbm) or tbm[-1] != tbs[-1]:
        return False
    it = iter(tbs)
    if not all(any(x == y for y in it) for x in tbm):
        return False
    names = {x[0] for x in tbm}
    return all(x[0] in names for x in tbs)


_bare_raise_lines = {}


def bare_raise_in_finally_lines(src):
    """line numbers of bare 'raise' statements lexically inside a finally clause (not inside a handler nested in it)"""
    key = hash(src)
    if key in _bare_raise_lines:
        return _bare_raise_lines[key]
    import ast
    out = set()

    def walk(node, in_fin):
        if isinstance(node, ast.Raise) and node.exc is None and in_fin:
            out.add(node.lineno)
        if isinstance(node, ast.Try):
            for ch in node.body + node.orelse:
                walk(ch, in_fin)
            for h in node.handlers:
                for ch in h.body:
                    walk(ch, False)
            for ch in node.finalbody:
                walk(ch, True)
            return
        if isinstance(node, (ast.FunctionDef, ast.AsyncFunctionDef, ast.Lambda)):
            in_fin = False
        for ch in ast.iter_child_nodes(node):
            walk(ch, in_fin)
    try:
        walk(ast.parse(src), False)
    except SyntaxError:
        pass
    _bare_raise_lines[key] = out
    return out


def is_known_f16b(src, tbm, tbs):
    """Known finding F16 (second shape): a bare 'raise' directly inside a finally clause re-raises the exception in flight;
    compiled code reports the line of that 'raise' for the function's traceback entry, CPython keeps the line where the
    exception was first raised in the function.  Matched narrowly: same functions in the same order, and every differing
    entry of the compiled chain names the line of such a 'raise'."""
    tbm = [tuple(x) for x in tbm]
    tbs = [tuple(x) for x in tbs]
    if len(tbm) != len(tbs) or [x[0] for x in tbm] != [x[0] for x in tbs]:
        return False
    lines = bare_raise_in_finally_lines(src)
    diff = [(m, s) for m, s in zip(tbm, tbs) if m != s]
    return bool(diff) and all(s[1] in lines for m, s in diff)


def plans_for(rng, nprobes, nsingle_cap, nmulti):
    plans = []
    singles = [(k, e) for k in range(nprobes) for e in EXC_CATALOGUE]
    if len(singles) > nsingle_cap:
        singles = rng.sample(singles, nsingle_cap)
    for k, e in singles:
        plans.append({str(k): ["raise", e]})
    for _ in range(nmulti):
        n = rng.choice([2, 2, 3])
        pl = {}
        for _ in range(n):
            pl[str(rng.randrange(0, nprobes + 3))] = ["raise", rng.choice(EXC_CATALOGUE)]
        plans.append(pl)
    return plans


def one_run(check, seed, i, cfg):
    """One run = one (module, function): fault-free pass for each arg, then its plans."""
    mods = cfg["modules"]
    ms = mods[i % len(mods)]
    pair = load_pair(ms)
    sm = pair[2]
    nfuncs = ms["nfuncs"]
    fi = (i // len(mods)) % nfuncs
    rng = core.rng_for(check, seed, i)
    res = {"probes": {}, "faults": {}, "n": 0, "nontrivial_digests": [], "steps": 0}
    check_tb = cfg.get("check_tb", False)
    obs_n = [0]

    def mk_observer():
        if not cfg.get("observer"):
            return None
        from . import tracemon
        obs_n[0] += 1
        return tracemon.make(("profile", "trace", "both", "decline")[obs_n[0] % 4], ms["name"] + ".py", ms.setdefault("spans", tracemon.function_spans(ms["src"])),
                                   ms.setdefault("f19", sorted(tracemon.funcs_returning_inside_try_finally(ms["src"]))))
    for arg in (0, 1, 2):
        o = mk_observer()
        rm, d, tbd = compare(ms, fi, arg, {}, pair, check_tb, o)
        nprobes = rm["nprobes"]
        cases = [({}, rm, d, tbd, o)]
        for plan in plans_for(rng, nprobes, cfg["single_cap"], cfg["nmulti"]):
            o = mk_observer()
            rm2, d2, tbd2 = compare(ms, fi, arg, plan, pair, check_tb, o)
            cases.append((plan, rm2, d2, tbd2, o))
        for plan, rmx, dx, tbdx, ox in cases:
            res["n"] += 1
            if ox is not None:
                res["probes"]["events_" + ox.mode] = res["probes"].get("events_" + ox.mode, 0) + ox.events
                res["probes"]["line_events"] = res["probes"].get("line_events", 0) + ox.line_events
                if ox.known_f19:
                    res["probes"]["known_F19_return_event_before_finally"] = res["probes"].get("known_F19_return_event_before_finally", 0) + 1
                if ox.result and "violation" not in res:
                    res["violation"] = {"klass": "trace-events:" + ox.result[0]["what"], "detail": {"mode": ox.mode, "problems": ox.result}, "func": fi, "arg": arg,
                                        "plan": plan, "module": ms["name"], "src": ms["src"], "observer_mode": ox.mode}
                elif ox.mode == "decline" and dx is not None and "violation" not in res:
                    # a tracer that declines scopes must not change what the program does (the model ran untraced)
                    res["violation"] = {"klass": "trace-events:tracing-changes-behaviour", "detail": {"mode": "decline", "diff": dx}, "func": fi, "arg": arg,
                                        "plan": plan, "module": ms["name"], "src": ms["src"], "observer_mode": "decline"}
                dx = tbdx = None
            res["steps"] += rmx["nprobes"]
            injected = sum(1 for ev in rmx["log"] if ev and ev[0] == "inject")
            for ev in rmx["log"]:
                if ev and ev[0] == "inject":
                    res["faults"]["raise:" + ev[2]] = res["faults"].get("raise:" + ev[2], 0) + 1
            if injected >= 2:
                res["probes"]["fault_while_exception_in_flight_or_after"] = res["probes"].get("fault_while_exception_in_flight_or_after", 0) + 1
            flat = json.dumps(rmx["log"])
            if '"cm.exit"' in flat:
                res["probes"]["with_exit_ran"] = res["probes"].get("with_exit_ran", 0) + 1
            if rmx["outcome"][0] == "raise" and rmx["outcome"][1] and (rmx["outcome"][1][2] or rmx["outcome"][1][3]):
                res["probes"]["propagated_with_cause_or_context"] = res["probes"].get("propagated_with_cause_or_context", 0) + 1
            if injected:
                res["nontrivial_digests"].append(core.digest([ms["name"], fi, arg, plan]))
            if tbdx is not None and tbdx.get("what") == "known-F16":
                res["probes"]["known_F16_duplicate_frame_on_reraise"] = res["probes"].get("known_F16_duplicate_frame_on_reraise", 0) + 1
                tbdx = None
            which = tbdx if (cfg.get("prop") == "C44") else dx
            if which is not None and "violation" not in res:
                res["violation"] = {"klass": "differs-from-cpython:" + which["what"], "detail": which, "func": fi, "arg": arg, "plan": plan,
                                    "module": ms["name"], "src": ms["src"]}
            if check_tb and tbdx is None and dx is None and rmx["outcome"][0] == "raise":
                res["probes"]["tracebacks_compared"] = res["probes"].get("tracebacks_compared", 0) + 1
    if i % 50 == 0:
        res["sample"] = {"module": ms["name"], "func": fi, "plan_example": {"3": ["raise", "E2"]}}
    return res


def build_modules(seed, nmods, nfuncs, tag, cflags=(), directives=None):
    specs, metas = [], []
    for m in range(nmods):
        rng = core.rng_for("C22-module", seed, m)
        src = gen_module(rng, nfuncs)
        name = "wl22_%s_%d_%d" % (tag, seed, m)
        specs.append({"name": name, "src": src, "ext": ".py", "cflags": tuple(cflags), "directives": directives})
        metas.append({"name": name, "src": src, "nfuncs": nfuncs})
    sos = build.build_many(specs)
    out, errors = [], []
    for meta, so in zip(metas, sos):
        if isinstance(so, Exception):
            errors.append(str(so)[-800:])
            continue
        meta["so"] = so
        out.append(meta)
    return out, errors


def run_single(ms, fi, arg, plan, prop):
    pair = load_pair(ms)
    rm, d, tbd = compare(ms, fi, arg, plan, pair, prop == "C44")
    if tbd is not None and tbd.get("what") == "known-F16" and not os.environ.get("SIMKIT_RAW_REPLAY"):
        tbd = None
    return tbd if prop == "C44" else d


def minimise(v, ms, prop):
    plan = v["plan"]

    def fails(pl):
        st, r = core.run_one_forked(run_single, ms, v["func"], v["arg"], pl, prop, timeout=30)
        return st == "crash" or (st == "ok" and r is not None)
    items = sorted(plan.items())
    if len(items) > 1:
        items = core.ddmin(items, lambda it: fails(dict(it)), max_tests=20)
    pl = dict(items)
    st, r = core.run_one_forked(run_single, ms, v["func"], v["arg"], pl, prop, timeout=30)
    if st == "ok" and r is not None:
        v = dict(v, plan=pl, detail=r, minimised=True)
    elif st == "crash":
        v = dict(v, plan=pl, detail={"crash": r}, klass="crash", minimised=True)
    # keep only the one function in the replay source
    import re
    parts = re.split(r"\n\n\n(?=def f\d+\()", v["src"])
    parts[0] = parts[0][len(HEADER):] if parts[0].startswith(HEADER) else parts[0]
    keep = [p for p in parts if p.startswith("def f%d(" % v["func"])]
    if keep:
        src2 = HEADER + keep[0].replace("def f%d(" % v["func"], "def f0(") + "\n"
        v2 = dict(v, src=src2, func=0, module="wit22_%s" % core.digest(src2)[:8])
        v2["_reduced_src"] = True
        return v2
    return v


def replay(payload):
    core.stage()
    if payload.get("poscorpus"):
        from . import poscorpus
        return poscorpus.replay(payload)
    prop = payload["property"]
    name = payload["module"] if payload["module"].startswith("wit22") else payload["module"] + "_replay"
    name = name if name.startswith(("wl22_", "wit22")) else "wit22_" + name
    so = build.build_ext(name, payload["src"], ".py", cflags=tuple(payload.get("cflags", ())), directives=payload.get("directives"))
    ms = {"name": name, "src": payload["src"], "so": so, "nfuncs": 1}
    if payload.get("raw"):
        os.environ["SIMKIT_RAW_REPLAY"] = "1"
    try:
        st, r = core.run_one_forked(run_single, ms, payload["func"], payload["arg"], payload["plan"], prop, timeout=60)
    finally:
        os.environ.pop("SIMKIT_RAW_REPLAY", None)
    print("replayed: %s %s" % (st, json.dumps(r)[:700] if r is not None else None))
    if payload.get("klass") == "crash":
        return st == "crash"
    return st == "crash" or (st == "ok" and r is not None)


def recover_crash(seed, i, cfg, mods, prop):
    ms = mods[i % len(mods)]
    fi = (i // len(mods)) % ms["nfuncs"]
    rng = core.rng_for(prop, seed, i)
    for arg in (0, 1, 2):
        st, r = core.run_one_forked(run_single, ms, fi, arg, {}, prop, timeout=30)
        if st == "crash":
            return fi, arg, {}
        # number of probes is needed to regenerate the same plans
        st, r = core.run_one_forked(_nprobes, ms, fi, arg, timeout=30)
        if st != "ok":
            return fi, arg, {}
        for plan in plans_for(rng, r, cfg["single_cap"], cfg["nmulti"]):
            st2, r2 = core.run_one_forked(run_single, ms, fi, arg, plan, prop, timeout=30)
            if st2 == "crash":
                return fi, arg, plan
    return None


def _nprobes(ms, fi, arg):
    pair = load_pair(ms)
    rm, _ = run_case(pair[1], fi, arg, {}, pair[2])
    return rm["nprobes"]


def explore(rep, prop, seed, tier, tag, cflags=(), directives=None, budget=60, check_tb=False, extra_cfg=None, nmods=None):
    nmods = nmods or (8 if tier == "quick" else 16)
    nfuncs = 24
    mods, errors = build_modules(seed, nmods, nfuncs, tag, cflags, directives)
    for e in errors:
        rep.probes["workload_modules_not_built"] = rep.probes.get("workload_modules_not_built", 0) + 1
        sys.stderr.write("workload build failed (dropped): %s\n" % e[-400:])
    if not mods:
        rep.harness_errors.append("no workload module could be built: %s" % (errors[:1],))
        return [], mods, {}
    cfg = {"modules": mods, "single_cap": 80 if tier == "quick" else 250, "nmulti": 60 if tier == "quick" else 200,
           "case_timeout_s": 120, "check_tb": check_tb, "prop": prop}
    cfg.update(extra_cfg or {})
    deadline = time.time() + budget
    total = len(mods) * nfuncs
    rounds = 1 if tier == "quick" else 10 ** 6
    viol = []
    start = 0
    for rnd in range(rounds):
        if time.time() > deadline:
            break
        results = core.run_forked(one_run, prop, seed, range(start, start + total), cfg, deadline=deadline)
        start += total
        for i, r in results:
            if "crash" in r:
                viol.append((i, {"klass": "crash", "detail": {"signal": r["crash"]}, "module": mods[i % len(mods)]["name"],
                                 "src": mods[i % len(mods)]["src"], "func": None, "arg": None, "plan": None}))
                continue
            if "harness_error" in r:
                rep.harness_errors.append(r["harness_error"])
                continue
            rep.absorb(r)
            if "violation" in r:
                viol.append((i, r["violation"]))
        if viol:
            break
    return viol, mods, cfg


def report_violations(rep, prop, seed, viol, mods, cfg):
    modmap = {m["name"]: m for m in mods}
    seen = set()
    for i, v in viol:
        if v["klass"] == "crash" and v.get("func") is None:
            rec = recover_crash(seed, i, cfg, mods, prop)
            if rec is None:
                rep.harness_errors.append("run %d crashed a worker but no single case reproduces it" % i)
                continue
            v["func"], v["arg"], v["plan"] = rec
        if v["klass"] in seen:
            continue
        seen.add(v["klass"])
        v = minimise(v, modmap[v["module"]], prop)
        v["property"] = prop
        rep.violation("%s (run %s): %s" % (v["klass"], i, json.dumps(v["detail"])[:300]), dict(v, seed=seed, run_index=i))


def check_C22(tier):
    prop = "C22"
    seed = core.env_seed()
    core.stage()
    rep = core.Report(prop, ENGINE, tier, seed, level="fault_enumeration")
    rep.rule = ("generated functions (nests of try/except/else/finally depth <= 3, with CM (suppressing / failing __enter__ / failing __exit__), for loops with "
                "break/continue/return, for/else and while/else whose break/continue sits under 1-3 levels of try-finally / try-except / with and whose else clause ends in raise/return, raise, raise-from, bare raise, except* sub-grammar), every leaf a probe, X() logging sys.exc_info() with cause/context chain "
                "at every handler and finally entry. Per function and argument: fault-free run, then single faults (probe occurrence x exception catalogue "
                "E1/E2/E3(subclass)/Inj(BaseException)/KeyError/StopIteration/ExceptionGroup; all of them up to a cap) and seeded double/triple faults. "
                "non-trivial = at least one injected raise fired; distinct = (module, function, arg, plan) digest")
    rep.components = {"real": ["generated C for try/except/finally/with/raise/except*", "Cython/Utility/Exceptions.c", "CPython 3.12 runtime"],
                      "stub": ["probe/seam library deciding which call raises"]}
    rep.assumptions = ["CPython 3.12.1 executing the same source and plan is the reference", "message text of builtin exceptions is not compared",
                       "the former grammar guards for F6/F26 (no jumps inside finally, no return through finally inside a handler) are off since both were repaired in /repo"]
    rep.quarantined = []
    budget = core.env_budget(60 if tier == "quick" else 900)
    viol, mods, cfg = explore(rep, prop, seed, tier, "base", budget=budget)
    core.replay_known(prop, replay, rep)
    if mods:
        a = dict(core.run_forked(one_run, prop, seed, range(6), cfg, jobs=2))
        b = dict(core.run_forked(one_run, prop, seed, range(6), cfg, jobs=3))
        mism = sum(core.digest(a[k]) != core.digest(b[k]) for k in range(6))
        rep.determinism = {"seeds": 6, "mismatches": mism}
        if mism:
            rep.harness_errors.append("determinism self-check failed")
    report_violations(rep, prop, seed, viol, mods, cfg)
    rep.extra["clock"] = "none"
    return rep.finish()


def check_C44(tier):
    prop = "C44"
    seed = core.env_seed()
    core.stage()
    rep = core.Report(prop, ENGINE, tier, seed)
    rep.rule = ("same generated functions and fault plans as C22; for every case whose exception propagates out of the call and whose C22 trace agrees with CPython, "
                "the (function name, line number) chain of traceback entries belonging to the workload file must equal CPython's. "
                "non-trivial = an injected raise fired; distinct = (module, function, arg, plan) digest")
    rep.components = {"real": ["__PYX_ERR / __Pyx_AddTraceback line bookkeeping in generated C", "Cython/Utility/Exceptions.c", "code object / line table creation"],
                      "stub": ["probe/seam library deciding which call raises"]}
    rep.assumptions = ["SIM-part: the traceback clause is decided by simulation; the code-object position clause is only sampled by an input-generation corpus (co_firstlineno == CPython's, decoded positions inside the object's own lines) and the LineTable.py encoder is not tested on its own",
                       "all generated statements are single-line, as the statement's quantifier says"]
    budget = core.env_budget(60 if tier == "quick" else 900)
    viol, mods, cfg = explore(rep, prop, seed, tier, "base", budget=budget, check_tb=True)
    # second clause (code-object positions): input-generation corpus, not simulation (see poscorpus.py)
    from . import poscorpus
    pviol = poscorpus.check(rep, seed, 8 if tier == "quick" else 48)
    core.replay_known(prop, replay, rep)
    rep.determinism = {"seeds": 0, "mismatches": 0, "note": "shares the C22 runner whose self-check runs in the C22 check"}
    report_violations(rep, prop, seed, viol, mods, cfg)
    seen_p = set()
    for v in pviol:
        if v["klass"] in seen_p:
            continue
        seen_p.add(v["klass"])
        rep.violation("%s: %s" % (v["klass"], json.dumps(v["detail"])[:300]), dict(v, seed=seed, property=prop))
    rep.extra["clock"] = "none"
    return rep.finish()
