"""E2 build-sim — C46 (rebuild exactly what changed) and C42 (deterministic output).

C46: real cythonize() over a generated source tree, each invocation a
simulated fresh process.  The simulator owns the clock: every file's mtime
is stamped from a simulated clock (equal stamps, sub-second steps, backward
jumps, 'restored from backup').  Model: the generator's own dependency
graph + the stamp rule.  Checked per invocation: exact regenerate set;
all_dependencies(m) == model closure == files the compiler actually opened.
"""
import hashlib
import json
import os
import random
import shutil
import sys
import time

from . import core, procsim

ENGINE = "E2-build-sim"


# --------------------------------------------------------------------------
# generated tree.  node: {"kind","v","stmts":[...]}
#   stmts: ["cimport", [mods]] | ["from_cimport", mod, [names]] | ["from_pkg_cimport", pkg, [subs]]
#          | ["cy_import", mod, name] (from cython.cimports.mod import name; only in .py)
#          | ["include", path] | ["decoy", style, text]

def mod_of(path):
    p = path[:-4] if path.endswith((".pxd", ".pyx")) else path
    return p.replace("/", ".")


def const_name(path):
    return mod_of(path).replace(".", "_").upper() + "_K"


def render(path, node):
    out = []
    for st in node["stmts"]:
        k = st[0]
        if k == "cimport":
            out.append("cimport " + ", ".join(st[1]))
        elif k == "from_cimport":
            out.append("from %s cimport %s" % (st[1], ", ".join(st[2])))
        elif k == "from_pkg_cimport":
            out.append("from %s cimport %s" % (st[1], ", ".join(st[2])) + ("  # submodules" if len(st[2]) % 2 else ""))
        elif k == "cy_import":
            out.append("from cython.cimports.%s import %s" % (st[1], st[2]))
        elif k == "include":
            out.append('include "%s"' % st[1])
        elif k == "decoy":
            style, text = st[1], st[2]
            if style == "bscomment":
                # a comment that ends in a backslash, directly in front of the file's first dependency statement
                # (comments never continue onto the next line)
                out.insert(0, "# " + text + " C:\\src\\include\\")
            elif style == "comment":
                out.append("# " + text)
            elif style == "string":
                out.append("_s%d = %r" % (len(out), text))
            elif style == "docstring":
                out.append('_d%d = """\n%s\n"""' % (len(out), text))
            elif style == "fstring":
                out.append('_f%d = f"{1}%s"' % (len(out), text.replace('"', "")))
    body = "\n".join(out) + ("\n" if out else "")
    v = node["v"]
    kind = node["kind"]
    if kind == "pxd":
        return body + "cdef enum:\n    %s = %d\n" % (const_name(path), v)
    if kind == "pxi":
        return body + "cdef enum:\n    %s = %d\n" % ("PXI_" + os.path.basename(path)[:-4].upper() + "_K", v)
    if kind == "init":
        return ""
    if kind == "py":
        return body + "\ndef f():\n    return %d\n" % v
    if v < 0:
        return body + "\ndef f(:\n    return 1\n"
    return body + "\ndef f():\n    return %d\n" % v


def gen_tree(rng):
    tree = {}
    use_pkg = rng.random() < 0.5
    npxd = rng.choice([1, 2, 3, 4, 5, 5, 6])
    shaped = npxd >= 4 and rng.random() < 0.5
    pxds = []
    for k in range(npxd):
        if use_pkg and rng.random() < 0.5:
            pxds.append("pkg/s%d.pxd" % k)
        else:
            pxds.append("d%d.pxd" % k)
    if use_pkg:
        tree["pkg/__init__.py"] = {"kind": "init", "v": 0, "stmts": []}
    pxis = ["i%d.pxi" % k for k in range(rng.choice([0, 1, 1, 2]))]
    nmod = rng.choice([1, 2, 2, 3])
    mods = ["m%d.pyx" % k for k in range(nmod)]
    if rng.random() < 0.2:
        mods[-1] = "m%d.py" % (nmod - 1)

    def cimport_stmt(target, from_file):
        tm = mod_of(target)
        if from_file.endswith(".py"):
            return ["cy_import", tm, const_name(target)]
        r = rng.random()
        if not from_file.endswith(".pyx"):
            # .pxd -> .pxd edges may form cycles: 'from a cimport NAME' of an attribute is not resolvable
            # inside a cycle (Cython then looks for a/NAME.pxd), so only module-level cimport forms are used
            if "." in tm and r < 0.4:
                pkg, sub = tm.rsplit(".", 1)
                return ["from_pkg_cimport", pkg, [sub]]
            return ["cimport", [tm]]
        if "." in tm and r < 0.35:
            pkg, sub = tm.rsplit(".", 1)
            return ["from_pkg_cimport", pkg, [sub]]
        if r < 0.65:
            return ["from_cimport", tm, [const_name(target)]]
        return ["cimport", [tm]]

    def decoy():
        tgt = rng.choice(pxds)
        text = rng.choice(["cimport %s", "from %s cimport X", "include \"%s.pxi\"", "  cimport %s"]) % mod_of(tgt)
        return ["decoy", rng.choice(["comment", "string", "docstring", "fstring", "bscomment", "bscomment"]), text]

    def stmts_for(path, allow_include=True):
        st = _stmts_for(path, allow_include)
        if not path.endswith((".pyx", ".py")):
            for x in st:        # assignments are not valid in .pxd files: only comment decoys there
                if x[0] == "decoy" and x[1] != "bscomment":
                    x[1] = "comment"
        return st

    def _stmts_for(path, allow_include=True):
        st = []
        for d in pxds:
            if d != path and rng.random() < (0.45 if len(pxds) <= 3 else 0.33):
                st.append(cimport_stmt(d, path))
        if allow_include and pxis and not path.endswith(".py") and rng.random() < 0.4:
            st.append(["include", pxis[0]])
        if rng.random() < 0.35:
            st.insert(rng.randrange(len(st) + 1), decoy())
        return st
    for d in pxds:
        tree[d] = {"kind": "pxd", "v": 0, "stmts": stmts_for(d)}
    if shaped:
        # nested cimport cycles with tail chains: ring over the first k nodes, chords back into the ring, chains behind it
        k = rng.randint(3, npxd - 1)
        ring, tail = pxds[:k], pxds[k:]
        edges = {d: [] for d in pxds}
        for j, d in enumerate(ring):
            edges[d].append(ring[(j + 1) % k])
        for _ in range(rng.randint(1, 2)):
            a, b = rng.sample(range(k), 2)
            if ring[min(a, b)] not in edges[ring[max(a, b)]]:
                edges[ring[max(a, b)]].append(ring[min(a, b)])      # back edge -> nested cycle
        prev = rng.choice(ring)
        for t in tail:
            edges[prev].append(t)
            prev = t if rng.random() < 0.75 else rng.choice(ring)
        for d in pxds:
            keep = [x for x in tree[d]["stmts"] if x[0] in ("include", "decoy")]
            tree[d]["stmts"] = [cimport_stmt(t, d) for t in edges[d]] + keep
    if pxis:
        tree["dz.pxd"] = {"kind": "pxd", "v": 0, "stmts": []}   # leaf only ever cimported from .pxi files
    for j, i in enumerate(pxis):
        st = []
        if j == 0 and len(pxis) > 1 and rng.random() < 0.6:
            st.append(["include", pxis[1]])
        if rng.random() < 0.5:
            st.append(["cimport", ["dz"]])
        tree[i] = {"kind": "pxi", "v": 0, "stmts": st}
    for j, m in enumerate(mods):
        tree[m] = {"kind": "py" if m.endswith(".py") else "pyx", "v": 1, "stmts": stmts_for(m)}
        if shaped:
            # modules enter the ring at different nodes
            keep = [x for x in tree[m]["stmts"] if x[0] in ("include", "decoy")]
            tree[m]["stmts"] = [cimport_stmt(pxds[(j * 2 + rng.randrange(2)) % len(pxds)], m)] + keep
        if m.endswith(".pyx") and rng.random() < 0.2:
            tree[m[:-4] + ".pxd"] = {"kind": "pxd", "v": 0, "stmts": []}
    # side directories (not packages): each holds a module and its own same-named local 'loc.pxd'; a cimport of 'loc'
    # resolves next to the cimporting file first, then on the include path (the tree root) - so the same module name
    # denotes different files depending on who asks, within one cythonize() call
    if rng.random() < 0.35:
        dirs = rng.sample(["la", "lb", "lc"], rng.choice([1, 2, 2, 3]))
        root_loc = rng.random() < 0.4
        if root_loc:
            tree["loc.pxd"] = {"kind": "pxd", "v": 0, "stmts": []}
        for j, d in enumerate(dirs):
            has_local = rng.random() < 0.8 or not root_loc
            if has_local:
                st = []
                if rng.random() < 0.3 and pxds:
                    st.append(["cimport", [mod_of(rng.choice([x for x in pxds if "/" not in x] or ["loc.pxd"]))]])
                tree["%s/loc.pxd" % d] = {"kind": "pxd", "v": 0, "stmts": [x for x in st if x[1] != ["loc"]]}
            m = "%s/n%d.pyx" % (d, j)
            owner = ("%s/loc.pxd" % d) if has_local else "loc.pxd"
            form = ["cimport", ["loc"]] if rng.random() < 0.5 else ["from_cimport", "loc", [const_name(owner)]]
            tree[m] = {"kind": "pyx", "v": 1, "stmts": [form]}
        if root_loc and rng.random() < 0.6:
            # a root-level module cimporting 'loc' sees the root file
            tree["mloc.pyx"] = {"kind": "pyx", "v": 1, "stmts": [["from_cimport", "loc", [const_name("loc.pxd")]]]}
    return tree


# --------------------------------------------------------------------------
# model

def resolve(tree, modname, from_path=None):
    cands = []
    d = os.path.dirname(from_path) if from_path else ""
    if d and (d + "/__init__.py") not in tree:
        cands.append(d + "/" + modname.replace(".", "/") + ".pxd")      # next to a non-package source file first
    cands.append(modname.replace(".", "/") + ".pxd")
    for cand in cands:
        if cand in tree:
            return cand
    return None


def m_includes(tree, path, seen=None):
    """transitively included files (textual inclusion)"""
    seen = set() if seen is None else seen
    for st in tree[path]["stmts"]:
        if st[0] == "include":
            inc = os.path.normpath(os.path.join(os.path.dirname(path), st[1]))
            if inc not in tree:
                inc = st[1]     # not next to the includer: found on the include path (the tree root)
            if inc in tree and inc not in seen:
                seen.add(inc)
                m_includes(tree, inc, seen)
    return seen


def m_cimported(tree, path):
    """pxd files directly cimported by path (its own statements and those of its includes) + same-named pxd"""
    out = []
    base, ext = os.path.splitext(path)
    if ext in (".pyx", ".py") and base + ".pxd" in tree:
        out.append(base + ".pxd")
    for f in [path] + sorted(m_includes(tree, path)):
        for st in tree[f]["stmts"]:
            if st[0] == "cimport":
                names = st[1]
            elif st[0] in ("from_cimport", "cy_import"):
                names = [st[1]]
            elif st[0] == "from_pkg_cimport":
                names = [st[1]] + ["%s.%s" % (st[1], s) for s in st[2]]
            else:
                continue
            for n in names:
                r = resolve(tree, n, f)
                if r and r not in out:
                    out.append(r)
    return out


def m_closure(tree, path):
    seen, todo, deps = set(), [path], set()
    while todo:
        x = todo.pop()
        if x in seen:
            continue
        seen.add(x)
        deps.add(x)
        deps |= m_includes(tree, x)
        todo.extend(m_cimported(tree, x))
    return deps


# --------------------------------------------------------------------------
# server-side functions (run inside a procsim server, cwd = tree root)

_opened = []
_hook_installed = [False]


def _audit(event, args):
    if event == "open" and args and isinstance(args[0], str):
        _opened.append(args[0])


def srv_cythonize(modules, force):
    """Run cythonize over modules (in this order); report per-module reads and dependency sets."""
    from Cython.Build import Dependencies as D
    if not _hook_installed[0]:
        sys.addaudithook(_audit)
        _hook_installed[0] = True
    reads = {}
    orig = D.cythonize_one
    root = os.getcwd()

    def rel(p):
        p = os.path.abspath(p)
        return os.path.relpath(p, root) if p.startswith(root + os.sep) else None

    def wrapped(pyx_file, *a, **k):
        del _opened[:]
        try:
            return orig(pyx_file, *a, **k)
        finally:
            rs = set()
            for p in _opened:
                r = rel(p)
                if r and not r.endswith((".c", ".cpp", ".h")):
                    rs.add(r)
            reads[pyx_file] = sorted(rs)
    D.cythonize_one = wrapped
    err = None
    import io
    cap, old_err = io.StringIO(), sys.stderr
    sys.stderr = cap
    try:
        try:
            D.cythonize(list(modules), quiet=True, force=bool(force))
        except BaseException as e:
            if isinstance(e, (SystemExit, KeyboardInterrupt)):
                raise
            err = "%s: %s | %s" % (type(e).__name__, str(e)[:120], cap.getvalue()[-600:])
    finally:
        sys.stderr = old_err
        D.cythonize_one = orig
    deps = {}
    tree = D.create_dependency_tree()
    for m in modules:
        try:
            deps[m] = sorted(x for x in (rel(p) for p in tree.all_dependencies(m)) if x)
        except BaseException as e:
            deps[m] = ["<error %s>" % type(e).__name__]
    return {"err": err, "reads": reads, "deps": deps}


# --------------------------------------------------------------------------
# simulation of one history

GEN_MARK = None


def c_of(m):
    return os.path.splitext(m)[0] + ".c"


def gen_history(rng, tree, cfg):
    mods = sorted(p for p in tree if tree[p]["kind"] in ("pyx", "py"))
    others = sorted(p for p in tree if tree[p]["kind"] in ("pxd", "pxi"))
    steps = [{"op": "invoke", "order": rng.sample(mods, len(mods)), "force": False}]
    n = rng.randint(3, cfg["maxsteps"])
    for _ in range(n):
        r = rng.random()
        if r < 0.30:
            order = rng.sample(mods, len(mods))
            if rng.random() < 0.25:
                order = order[:rng.randint(1, len(order))]
            steps.append({"op": "invoke", "order": order, "force": rng.random() < 0.05})
        elif r < 0.55:
            f = rng.choice(others + mods if others else mods)
            steps.append({"op": "edit", "file": f, "dt": rng.choice([0.0, 1e-6, 0.5, 1.0, 2.0, 3.0])})
        elif r < 0.65:
            steps.append({"op": "touch", "file": rng.choice(others + mods), "dt": rng.choice([0.0, 1.0, 2.0])})
        elif r < 0.73:
            steps.append({"op": "backdate", "file": rng.choice(others + mods), "dt": rng.choice([10.0, 100.0])})
        elif r < 0.80:
            steps.append({"op": "del_c", "file": rng.choice(mods)})
        elif r < 0.85:
            steps.append({"op": "foreign_c", "file": rng.choice(mods),
                          "how": rng.choice(["other_version", "near_version:b1", "near_version:rc2", "near_version:.dev0", "near_version:.1", "near_version:-", "empty"])})
        elif r < 0.92 and others:
            # restructure: change the cimport/include statements of a file
            steps.append({"op": "restructure", "file": rng.choice(others + mods), "seed": rng.randrange(1 << 30)})
        elif r < 0.96:
            m = rng.choice([x for x in mods if x.endswith(".pyx")] or mods)
            steps.append({"op": "toggle_pxd", "file": m})
        else:
            steps.append({"op": "clock_jump", "dt": rng.choice([-50.0, -5.0, 30.0])})
    if rng.random() < 0.3:
        # a syntax error in one module: the build fails part-way (fault); after the fix everything stale must be rebuilt
        pyx = [m for m in mods if m.endswith(".pyx")]
        if pyx:
            m = rng.choice(pyx)
            k = rng.randrange(1, len(steps) + 1)
            steps[k:k] = [{"op": "break", "file": m, "dt": rng.choice([0.5, 1.0, 2.0])},
                          {"op": "invoke", "order": rng.sample(mods, len(mods)), "force": False},
                          {"op": "fix", "file": m, "dt": rng.choice([0.0, 0.5, 1.0, 2.0])}]
    steps.append({"op": "invoke", "order": rng.sample(mods, len(mods)), "force": False})
    return steps


def simulate(case, rundir):
    tree = json.loads(json.dumps(case["tree"]))
    steps = case["steps"]
    root = os.path.join(rundir, "t")
    now = [1.0e9]
    log, viol = [], []
    stats = {"probes": {}, "faults": {}, "steps": 0}

    def probe(k, n=1):
        stats["probes"][k] = stats["probes"].get(k, 0) + n

    def stamp(path, t):
        ns = int(round(t * 1e9))
        os.utime(os.path.join(root, path), ns=(ns, ns))

    def write(path, t=None):
        p = os.path.join(root, path)
        os.makedirs(os.path.dirname(p), exist_ok=True)
        with open(p, "w") as f:
            f.write(render(path, tree[path]))
        stamp(path, now[0] if t is None else t)

    for p in sorted(tree):
        write(p)
    cstamp = {}     # simulated stamp given to each existing C file

    def mtime(path):
        return os.path.getmtime(os.path.join(root, path))

    def generated(cpath):
        # the model's own reading of the marker (not the function under test): first line is exactly this version's marker
        import Cython
        want = ("/* Generated by Cython %s */" % Cython.__version__).encode()
        try:
            with open(os.path.join(root, cpath), "rb") as f:
                first = f.readline().rstrip(b"\r\n")
        except OSError:
            return False
        return first == want

    for si, st in enumerate(steps):
        op = st["op"]
        stats["steps"] += 1
        if op == "edit":
            if st["file"] not in tree:
                continue
            tree[st["file"]]["v"] += 1
            now[0] += st["dt"]
            write(st["file"])
            log.append(("edit", st["file"], st["dt"]))
            probe("edits")
            if st["dt"] == 0.0:
                probe("equal_stamp_edit")
        elif op in ("break", "fix"):
            if st["file"] not in tree:
                continue
            v = abs(tree[st["file"]]["v"]) + 1
            tree[st["file"]]["v"] = -v if op == "break" else v
            now[0] += st["dt"]
            write(st["file"])
            log.append((op, st["file"], st["dt"]))
            probe("syntax_error_introduced" if op == "break" else "syntax_error_fixed")
        elif op == "touch":
            if st["file"] not in tree:
                continue
            now[0] += st["dt"]
            stamp(st["file"], now[0])
            log.append(("touch", st["file"], st["dt"]))
            probe("touches")
        elif op == "backdate":
            if st["file"] not in tree:
                continue
            tree[st["file"]]["v"] += 1
            write(st["file"], now[0] - st["dt"])
            log.append(("backdate", st["file"], st["dt"]))
            probe("backdated_edits")
        elif op == "del_c":
            c = c_of(st["file"])
            if os.path.exists(os.path.join(root, c)):
                os.unlink(os.path.join(root, c))
                cstamp.pop(c, None)
                probe("c_deleted")
            log.append(("del_c", c))
        elif op == "foreign_c":
            c = c_of(st["file"])
            p = os.path.join(root, c)
            if os.path.exists(p):
                with open(p, "rb") as f:
                    data = f.read()
                if st["how"] == "other_version":
                    data = b"/* Generated by Cython 0.29.0 */\n" + data.split(b"\n", 1)[-1]
                elif st["how"].startswith("near_version:"):
                    # a C file written by a release whose version string merely extends (or is a prefix of) the running one:
                    # pre-release -> final upgrades; still a different generator, so the file has to be regenerated
                    import Cython
                    suf = st["how"].split(":", 1)[1]
                    v = Cython.__version__[:-1] if suf == "-" else Cython.__version__ + suf
                    data = ("/* Generated by Cython %s */\n" % v).encode() + data.split(b"\n", 1)[-1]
                    probe("foreign_c_marker_near_version")
                elif st["how"] == "not_cython":
                    data = b"/* hand written */\n"
                else:
                    data = b""
                with open(p, "wb") as f:
                    f.write(data)
                # keep it newer than everything: only the marker should force the rebuild
                now[0] += 1.0
                stamp(c, now[0])
                cstamp[c] = mtime(c)
                probe("foreign_c_marker")
            log.append(("foreign_c", c, st["how"]))
        elif op == "restructure":
            f = st["file"]
            if f not in tree:
                continue
            r2 = random.Random(st["seed"])
            pxds = sorted(p for p in tree if tree[p]["kind"] == "pxd" and os.path.splitext(p)[0] + ".pyx" not in tree
                          and os.path.splitext(p)[0] + ".py" not in tree and p != "dz.pxd"
                          and os.path.dirname(p) not in ("la", "lb", "lc") and p != "loc.pxd")
            # ('loc' names a different file per directory; a chain that reaches both a local and the root loc.pxd from one
            # module would give the compiler two modules of the same qualified name - an ill-formed project, not generated)
            if tree[f]["kind"] == "pxi":
                continue
            keep = [s for s in tree[f]["stmts"] if s[0] in ("include", "decoy")]
            new = []
            for d in pxds:
                if d != f and r2.random() < 0.4:
                    tm = mod_of(d)
                    if f.endswith(".py"):
                        new.append(["cy_import", tm, const_name(d)])
                    elif "." in tm and r2.random() < 0.4:
                        new.append(["from_pkg_cimport", tm.rsplit(".", 1)[0], [tm.rsplit(".", 1)[1]]])
                    elif f.endswith(".pyx"):
                        new.append(r2.choice([["cimport", [tm]], ["from_cimport", tm, [const_name(d)]]]))
                    else:
                        new.append(["cimport", [tm]])
            tree[f]["stmts"] = new + keep
            tree[f]["v"] += 1
            now[0] += 1.0
            write(f)
            log.append(("restructure", f, [s[:2] for s in new]))
            probe("restructures")
        elif op == "toggle_pxd":
            m = st["file"]
            pxd = os.path.splitext(m)[0] + ".pxd"
            if pxd in tree:
                del tree[pxd]
                os.unlink(os.path.join(root, pxd))
                log.append(("rm_same_named_pxd", pxd))
            else:
                tree[pxd] = {"kind": "pxd", "v": 0, "stmts": []}
                now[0] += 1.0
                write(pxd)
                log.append(("add_same_named_pxd", pxd))
            probe("same_named_pxd_toggles")
        elif op == "clock_jump":
            now[0] += st["dt"]
            log.append(("clock_jump", st["dt"]))
            probe("clock_jumps")
        elif op == "invoke":
            order = [m for m in st["order"] if m in tree]
            # model prediction
            expect, closures = {}, {}
            for m in order:
                c = c_of(m)
                cl = m_closure(tree, m)
                closures[m] = sorted(cl)
                cp = os.path.join(root, c)
                if st["force"] or not os.path.exists(cp) or not generated(c):
                    expect[m] = True
                else:
                    expect[m] = mtime(c) < max(mtime(f) for f in cl)
            before = {}
            for m in order:
                c = c_of(m)
                cp = os.path.join(root, c)
                before[m] = (os.stat(cp).st_mtime_ns, core.digest(open(cp, "rb").read().decode("latin1"))) if os.path.exists(cp) else None
            srv = procsim.get("e2")
            r = srv.call("simkit.e2_build", "srv_cythonize", [order, st["force"]], cwd=root)
            if "lost" in r or "error" in r:
                raise core.HarnessError("e2 server: %r" % (r,))
            r = r["ok"]
            broken = [m for m in order if tree[m]["v"] < 0]
            if r["err"] and not broken:
                raise core.HarnessError("cythonize failed on a generated tree (generator bug?): %s" % r["err"])
            now[0] += 1.0
            if broken:
                # fault: the build stops at the first module that does not compile.  Which modules were reached depends on
                # cythonize's internal order, so this invocation is checked one-sidedly and the state is then taken from disk.
                probe("failed_invocations")
                if not r["err"] and any(expect[m] for m in broken):
                    viol.append({"klass": "broken-module-built-without-error", "step": si, "module": broken[0], "detail": "cythonize reported success"})
                for m in order:
                    c = c_of(m)
                    cp = os.path.join(root, c)
                    after = (os.stat(cp).st_mtime_ns, core.digest(open(cp, "rb").read().decode("latin1"))) if os.path.exists(cp) else None
                    changed = after != before[m]
                    log.append(("invoke-failed", si, m, changed))
                    if m in broken:
                        # if a rebuild was due, whatever is left of its C file must not look up to date
                        if expect[m] and after is not None and generated(c) and mtime(c) >= max(mtime(f) for f in m_closure(tree, m)):
                            viol.append({"klass": "failed-compile-left-c-file-that-looks-up-to-date", "step": si, "module": m,
                                         "detail": "C file of a module with a syntax error is marked and not older than its inputs"})
                    elif changed and not expect[m]:
                        viol.append({"klass": "spurious-rebuild", "step": si, "module": m, "detail": "rebuilt during a failing invocation although up to date",
                                     "closure": closures[m]})
                    elif changed and after is not None:
                        stamp(c, now[0])
                        probe("regenerated")
                continue
            for m in order:
                c = c_of(m)
                cp = os.path.join(root, c)
                after = (os.stat(cp).st_mtime_ns, core.digest(open(cp, "rb").read().decode("latin1"))) if os.path.exists(cp) else None
                regenerated = after is not None and after != before[m]
                if regenerated:
                    stamp(c, now[0])
                    probe("regenerated")
                else:
                    probe("up_to_date")
                log.append(("invoke", si, m, regenerated))
                if regenerated != expect[m]:
                    viol.append({"klass": "spurious-rebuild" if regenerated else "missed-rebuild", "step": si, "module": m,
                                 "detail": "model expects rebuild=%s, cythonize did rebuild=%s" % (expect[m], regenerated),
                                 "closure": closures[m]})
                deps = r["deps"].get(m)
                if deps is not None and sorted(deps) != closures[m]:
                    extra = sorted(set(deps) - set(closures[m]))
                    missing = sorted(set(closures[m]) - set(deps))
                    viol.append({"klass": "dependency-set-differs-from-model", "step": si, "module": m,
                                 "detail": "all_dependencies: extra=%s missing=%s (query order %s)" % (extra, missing, order)})
                if m in r["reads"]:
                    rd = set(r["reads"][m]) - {"pkg/__init__.py"}
                    dp = set(deps or ())
                    if rd != dp:
                        viol.append({"klass": "dependency-set-differs-from-files-read", "step": si, "module": m,
                                     "detail": "read but not a dependency=%s; dependency but never read=%s" % (sorted(rd - dp), sorted(dp - rd))})
                    probe("read_sets_compared")
            probe("invocations")
            if len(order) > 1:
                probe("multi_module_query_orders")
    return log, viol, stats


def has_cycle(tree):
    pxds = [p for p in tree if tree[p]["kind"] == "pxd"]
    for p in pxds:
        seen, todo = set(), list(m_cimported(tree, p))
        while todo:
            x = todo.pop()
            if x == p:
                return True
            if x not in seen:
                seen.add(x)
                todo.extend(m_cimported(tree, x))
    return False


def one_run_c46(check, seed, i, cfg, case=None):
    rng = core.rng_for(check, seed, i)
    if case is None:
        tree = gen_tree(rng)
        case = {"tree": tree, "steps": gen_history(rng, tree, cfg)}
    rundir = os.path.join(core.workdir(), "e2", "r%d-%d-%d" % (os.getpid(), seed, i))
    shutil.rmtree(rundir, ignore_errors=True)
    os.makedirs(rundir)
    try:
        log, viol, stats = simulate(case, rundir)
    finally:
        shutil.rmtree(rundir, ignore_errors=True)
    res = {"probes": stats["probes"], "faults": {}, "steps": stats["steps"]}
    if has_cycle(case["tree"]):
        res["probes"]["trees_with_cimport_cycle"] = 1
    res["digest"] = core.digest(log)
    res["nontrivial"] = stats["probes"].get("regenerated", 0) > len([p for p in case["tree"] if case["tree"][p]["kind"] in ("pyx", "py")]) \
        and stats["probes"].get("up_to_date", 0) > 0
    if viol:
        res["violation"] = dict(viol[0], case=case, n_violations=len(viol))
    if i % 101 == 0:
        res["sample"] = {"case": case, "log": log[-10:]}
    return res


def warm():
    from . import e1_cache
    e1_cache.warm()


def _fails(case, klass):
    try:
        r = one_run_c46("C46", 0, 0, None, case=case)
    except Exception:
        return False
    return "violation" in r and r["violation"]["klass"] == klass


def minimise_c46(v):
    case, klass = v["case"], v["klass"]
    deadline = time.time() + 60
    steps = core.ddmin(case["steps"], lambda ss: time.time() < deadline and _fails(dict(case, steps=ss), klass), max_tests=50)
    case2 = dict(case, steps=steps)
    # drop statements / files
    tree = json.loads(json.dumps(case2["tree"]))
    changed = True
    while changed and time.time() < deadline:
        changed = False
        for p in sorted(tree):
            for k in range(len(tree[p]["stmts"])):
                t2 = json.loads(json.dumps(tree))
                del t2[p]["stmts"][k]
                if _fails(dict(case2, tree=t2), klass):
                    tree, changed = t2, True
                    break
            if changed:
                break
    case2 = dict(case2, tree=tree)
    r = one_run_c46("C46", 0, 0, None, case=case2)
    if "violation" in r and r["violation"]["klass"] == klass:
        return dict(r["violation"], case=dict(case2, minimised=True))
    return v


def replay(payload, warmed=False):
    if not warmed:
        warm()
    if payload["property"] == "C46":
        r = one_run_c46("C46", 0, 0, None, case=payload["case"])
    else:
        from . import e2_determinism
        return e2_determinism.replay(payload)
    v = r.get("violation")
    print("replayed: %s" % (json.dumps({k: v[k] for k in ("klass", "detail", "step")}) if v else "no violation"))
    return bool(v) and v["klass"] == payload.get("klass")


def check_C46(tier):
    PROP = "C46"
    seed = core.env_seed()
    warm()
    rep = core.Report(PROP, ENGINE, tier, seed)
    rep.rule = ("generated trees (1-3 .pyx/.py modules, 1-4 .pxd incl. a package, 0-2 .pxi; cimport forms 'cimport a', 'from a cimport X', "
                "'from pkg cimport sub', 'from cython.cimports.a import X'; include chains; decoy statements in comments/strings/docstrings/f-strings; "
                "cimport cycles allowed) x seeded histories of edit/touch/backdate/delete-C/foreign-C-header/restructure/toggle same-named .pxd/clock jump/"
                "invoke(cythonize, seeded module order, each a simulated fresh process). The simulator stamps every mtime from its clock. "
                "non-trivial = some module regenerated beyond the initial build and some module left up to date; distinct = event-log digest")
    rep.components = {"real": ["Cython/Build/Dependencies.py (parse_dependencies, DependencyTree, cythonize)", "Cython/Utils.py (file_generated_by_this_cython, cached_function)",
                               "the compiler (reads recorded by sys.addaudithook('open'))", "real files and real os.path.getmtime"],
                      "stub": ["clock (mtimes stamped by the simulator)", "process restart = server command preceded by clear_function_caches() + _dep_tree reset"]}
    rep.assumptions = ["a simulated process is one cythonize() call; in-process caches are dropped between calls the way Cython's own tests do",
                       "no syntax-error steps (a failing module aborts the whole cythonize call; out of this check's model)",
                       "packages have __init__.py only (no __init__.pxd), so 'cimport pkg.sub' reads exactly pkg/sub.pxd"]
    budget = core.env_budget(70 if tier == "quick" else 900)
    deadline = time.time() + budget
    cfg = {"maxsteps": 7 if tier == "quick" else 12, "case_timeout_s": 120}
    n = 700 if tier == "quick" else 10 ** 8
    batch = 350 if tier == "quick" else 2000
    start, viol = 0, []
    while start < n and time.time() < deadline - 8:
        results = core.run_batch(one_run_c46, PROP, seed, range(start, min(n, start + batch)), cfg, chunk=4, deadline=deadline)
        for i, r in results:
            if "harness_error" in r:
                rep.harness_errors.append(r["harness_error"])
                continue
            rep.absorb(r)
            if "violation" in r:
                viol.append((i, r["violation"]))
        start += batch
        if viol:
            break
    core.replay_known(PROP, lambda p: replay(p, warmed=True), rep)
    chk = list(range(8))
    a = dict(core.run_batch(one_run_c46, PROP, seed, chk, cfg, jobs=2, chunk=4))
    b = dict(core.run_batch(one_run_c46, PROP, seed, chk, cfg, jobs=4, chunk=1))
    mism = sum(a[k].get("digest") != b[k].get("digest") for k in chk)
    rep.determinism = {"seeds": len(chk), "mismatches": mism}
    if mism:
        rep.harness_errors.append("determinism self-check failed")
    seen = set()
    for i, v in viol:
        if v["klass"] in seen:
            continue
        seen.add(v["klass"])
        v = minimise_c46(v)
        rep.violation("%s: %s (run %s)" % (v["klass"], v["detail"], i), dict(v, seed=seed, run_index=i))
    rep.fault_counts = {"clock_jump": rep.probes.get("clock_jumps", 0), "backdated_edit": rep.probes.get("backdated_edits", 0),
                        "equal_stamp_edit": rep.probes.get("equal_stamp_edit", 0), "foreign_c_marker": rep.probes.get("foreign_c_marker", 0),
                        "c_deleted": rep.probes.get("c_deleted", 0)}
    rep.extra["simulated_time_s"] = "per run: sum of clock steps (0 .. 100 s per op); only ordering and equality of stamps matter"
    return rep.finish()
