"""Persistent forked compile servers: 'simulated processes'.

fork() of a warmed interpreter is very expensive in this sandbox under
parallel load (copy-on-write faults), so a simulated process is a command
sent to a long-lived server that first drops every in-process cache the
compiler keeps (the documented way Cython's own tests get a fresh state).
A real SIGKILL still kills the server; it is re-forked on next use.
"""
import importlib
import json
import os
import signal
import socket
import traceback

_pool = {}


def child_reset():
    from Cython import Utils
    from Cython.Build import Dependencies
    Utils.clear_function_caches()
    Dependencies._dep_tree = None


def _child_main(sock):
    try:
        keep = sock.fileno()
        for fd in range(3, 256):
            if fd != keep:
                try:
                    os.close(fd)
                except OSError:
                    pass
        devnull = os.open(os.devnull, os.O_WRONLY)
        os.dup2(devnull, 1)
        os.dup2(devnull, 2)
        signal.setitimer(signal.ITIMER_REAL, 0)
        signal.signal(signal.SIGALRM, signal.SIG_DFL)
        rf = sock.makefile("r")
        while True:
            line = rf.readline()
            if not line:
                break
            cmd = json.loads(line)
            if cmd.get("cmd") == "exit":
                break
            try:
                if cmd.get("cwd"):
                    os.chdir(cmd["cwd"])
                if cmd.get("reset", True):
                    child_reset()
                mod = importlib.import_module(cmd["module"])
                res = {"ok": getattr(mod, cmd["fn"])(*cmd.get("args", []))}
            except BaseException as e:
                if isinstance(e, (SystemExit, KeyboardInterrupt)):
                    raise
                res = {"error": type(e).__name__, "msg": str(e)[:300], "tb": traceback.format_exc()[-1500:]}
            sock.sendall((json.dumps(res) + "\n").encode())
    finally:
        os._exit(0)


class Proc:
    def __init__(self):
        self.owner = os.getpid()
        a, b = socket.socketpair()
        pid = os.fork()
        if pid == 0:
            a.close()
            _child_main(b)
            os._exit(0)
        b.close()
        self.pid, self.sock = pid, a
        self.rf = a.makefile("r")
        self.alive = True

    def call(self, module, fn, args=(), cwd=None, reset=True, timeout=120):
        self.sock.sendall((json.dumps({"cmd": "call", "module": module, "fn": fn, "args": list(args),
                                       "cwd": cwd, "reset": reset}) + "\n").encode())
        self.sock.settimeout(timeout)
        try:
            line = self.rf.readline()
        except (socket.timeout, OSError):
            self.kill()
            return {"lost": "timeout"}
        if not line:
            self.kill()
            return {"lost": "eof"}
        return json.loads(line)

    def kill(self):
        if self.alive:
            try:
                os.kill(self.pid, signal.SIGKILL)
            except OSError:
                pass
            try:
                os.waitpid(self.pid, 0)
            except OSError:
                pass
            self.alive = False
            try:
                self.sock.close()
            except OSError:
                pass


def get(role, fresh=False):
    p = _pool.get(role)
    if p is not None and p.owner != os.getpid():
        p = None
    if p is not None and (fresh or not p.alive):
        p.kill()
        p = None
    if p is None:
        p = _pool[role] = Proc()
    return p
