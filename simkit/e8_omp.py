"""E8 sim-OpenMP — C37.  prange/parallel code is compiled with -fopenmp (GCC
lowers the pragmas as in production) but linked against simgomp, a
deterministic replacement for libgomp: seeded thread interleaving at every
runtime entry point, at sim_yield() calls in loop bodies and around GIL
transitions; chunk hand-out is whatever the interleaving produces.
"""
import array
import ctypes
import gc
import json
import os
import sys
import time

from . import core, build

PROP = "C37"
ENGINE = "E8-sim-openmp"
SEAMDIR = os.path.dirname(os.path.abspath(__file__))

SCHEDS = ["static", "dynamic", "guided", "runtime"]

PYX_HEAD = '''# cython: language_level=3
from cython.parallel import prange, parallel
cimport cython
from boomlib import Boom

cdef extern from *:
    """
    extern void sim_yield(void);
    extern void sim_rec(long long tag, long long value);
    """
    void sim_yield() noexcept nogil
    void sim_rec(long long tag, long long value) noexcept nogil
'''

RED_T = '''
def red_%(s)s(long a, long b, long step, int nt, int chunk):
    cdef long i = -777
    cdef long s_add = 0, s_sub = 0, s_xor = 0, s_or = 0
    cdef long s_and = -1
    cdef long p = 1
    cdef double d = 0
    cdef long last = -1
    for i in prange(a, b, step, nogil=True, num_threads=nt, schedule='%(s)s'%(chunk)s):
        sim_rec(1, i)
        s_add += i
        sim_yield()
        s_sub -= i
        s_xor ^= i
        s_or |= i
        s_and &= i
        p *= 1 + (i & 1)
        d += i * 0.5
        last = i * 2
    return (i, s_add, s_sub, s_xor, s_or, s_and, p, d, last)

def redi_%(s)s(int a, int b, int nt, int chunk):
    cdef int i = -777
    cdef unsigned int u = 0
    cdef long long ll = 0
    for i in prange(a, b, nogil=True, num_threads=nt, schedule='%(s)s'%(chunk)s):
        sim_rec(1, i)
        u += <unsigned int> i
        sim_yield()
        ll += i
    return (i, u, ll)

def fill_%(s)s(int[::1] arr, int nt, int chunk):
    cdef Py_ssize_t i
    for i in prange(arr.shape[0], nogil=True, num_threads=nt, schedule='%(s)s'%(chunk)s):
        sim_rec(1, i)
        sim_yield()
        arr[i] = <int> (i * 3 + 1)
    return i

def brk_%(s)s(long n, int nt, int chunk, long k1, long k2):
    cdef long i
    for i in prange(n, nogil=True, num_threads=nt, schedule='%(s)s'%(chunk)s):
        sim_rec(1, i)
        sim_yield()
        if i == k1 or i == k2:
            sim_rec(4, i)
            break
        sim_yield()
    else:
        sim_rec(9, 0)
    return 0

cdef long c_ret_%(s)s(long n, int nt, int chunk, long k1, long k2) noexcept nogil:
    cdef long i
    for i in prange(n, num_threads=nt, schedule='%(s)s'%(chunk)s):
        sim_rec(1, i)
        sim_yield()
        if i == k1 or i == k2:
            sim_rec(3, i)
            return i * 10
        sim_yield()
    sim_rec(8, 0)
    return -1

def ret_%(s)s(n, nt, chunk, k1, k2):
    return c_ret_%(s)s(n, nt, chunk, k1, k2)

cdef long c_raise_%(s)s(long n, int nt, int chunk, long k1, long k2, long kret) except -2 nogil:
    cdef long i
    for i in prange(n, num_threads=nt, schedule='%(s)s'%(chunk)s):
        sim_rec(1, i)
        sim_yield()
        if i == k1 or i == k2:
            sim_rec(2, i)
            with gil:
                raise Boom(i)
        if i == kret:
            sim_rec(3, i)
            return i * 10
        sim_yield()
    sim_rec(8, 0)
    return -1

def raise_%(s)s(n, nt, chunk, k1, k2, kret):
    return c_raise_%(s)s(n, nt, chunk, k1, k2, kret)

def rb_%(s)s(long n, int nt, int chunk, long k1, long k2, long kb):
    # raise and break (but no return) in different iterations of one region
    cdef long i
    for i in prange(n, nogil=True, num_threads=nt, schedule='%(s)s'%(chunk)s):
        sim_rec(1, i)
        sim_yield()
        if i == k1 or i == k2:
            sim_rec(2, i)
            with gil:
                raise Boom(i)
        if i == kb:
            sim_rec(4, i)
            break
        sim_yield()
    else:
        sim_rec(9, 0)
    sim_rec(7, 0)
    return 0
'''

PAR = '''
def par_two(long n, long m, int nt, int chunk):
    cdef long i, j
    cdef long s = 0, t = 0
    with nogil, parallel(num_threads=nt):
        for i in prange(n, schedule='dynamic', chunksize=chunk):
            sim_rec(1, i)
            sim_yield()
            s += i
        for j in prange(m, schedule='guided'):
            sim_rec(5, j)
            sim_yield()
            t += j * 2
    return (s, t)

def par_local(long n, int nt):
    cdef long i
    cdef long s = 0
    cdef long local
    with nogil, parallel(num_threads=nt):
        local = 7
        for i in prange(n, schedule='static'):
            sim_rec(1, i)
            sim_yield()
            s += i + local - 7
    return s

cdef long h1(long x) except? -1 nogil:
    return x * 3 + 1

cdef long h2(long x) except? -1 nogil:
    sim_yield()
    return x + 5

cdef double h3(double x) except? -1.0 nogil:
    sim_yield()
    return x * 0.5

def tmp_reuse(long n, int nt, int chunk, long[::1] out, double[::1] dout):
    # The statements before the loop use and release C temporaries of the same types the loop body needs:
    # the body's temporaries are recycled ones and must still be private to each thread.
    cdef long i
    cdef long pre = h1(n) + h2(n) * h1(n + 1)
    cdef double dpre = h3(n) + h3(n + 1.0)
    cdef long s = 0
    for i in prange(n, nogil=True, num_threads=nt, schedule='dynamic', chunksize=chunk):
        sim_rec(1, i)
        out[i] = h1(i) + h2(i) * h1(i + 1)
        dout[i] = h3(i) + h3(i + 1.0)
        s += h2(i) - h1(i)
    return (pre, dpre, s)

def cond_threads(long n, int nt, bint use):
    cdef long i
    cdef long s = 0
    for i in prange(n, nogil=True, num_threads=nt, use_threads_if=use):
        sim_rec(1, i)
        sim_yield()
        s += i
    return s
'''


def gen_source():
    parts = [PYX_HEAD]
    for s in SCHEDS:
        chunk = "" if s == "runtime" else ", chunksize=chunk"
        parts.append(RED_T % {"s": s, "chunk": chunk})
    parts.append(PAR)
    return "\n".join(parts)


SRC = gen_source()
BOOMLIB = '''
LIVE = [0]


class Boom(Exception):
    def __init__(self, *a):
        Exception.__init__(self, *a)
        LIVE[0] += 1

    def __del__(self):
        LIVE[0] -= 1
'''

_state = {}


def load(ms):
    if "mod" not in _state:
        d = os.path.dirname(ms["so"])
        bl = os.path.join(d, "boomlib.py")
        if not os.path.exists(bl):
            with open(bl, "w") as f:
                f.write(BOOMLIB)
        if d not in sys.path:
            sys.path.insert(0, d)
        lib = ctypes.CDLL(ms["shim"], mode=ctypes.RTLD_GLOBAL)
        lib.simgomp_reset.argtypes = [ctypes.c_uint64, ctypes.c_int, ctypes.c_int, ctypes.c_longlong]
        lib.simgomp_digest.restype = ctypes.c_uint64
        import boomlib
        mod = build.load_ext(ms["name"], ms["so"])
        _state.update(mod=mod, lib=lib, boom=boomlib)
    return _state["mod"], _state["lib"], _state["boom"]


def seq_range(a, b, step):
    return list(range(a, b, step))


def gen_case(rng):
    sched = rng.choice(SCHEDS)
    kind = rng.choice(["red", "red", "redi", "fill", "brk", "ret", "raise", "raise", "rb", "rb", "par_two", "par_local", "cond", "tmp", "tmp"])
    nt = rng.choice([1, 2, 2, 3, 3, 4, 5, 8])
    chunk = rng.choice([1, 1, 2, 3, 5, 16])
    policy = rng.choice([0, 0, 0, 1, 2])
    case = {"kind": kind, "sched": sched, "nt": nt, "chunk": chunk, "policy": policy, "sim_seed": rng.randrange(1, 1 << 40)}
    if kind == "red":
        a = rng.choice([0, 0, 1, -5, 10, 7])
        step = rng.choice([1, 1, 2, 3, -1, -2, -3, 7])
        n = rng.choice([0, 1, 2, 3, 5, 8, 13, 24])
        b = a + n * step + (rng.choice([0, 0, 1, -1]) if step in (2, 3, 7, -2, -3) else 0)
        if rng.random() < 0.1:
            a, b = b, a          # empty range in the other direction
        case.update(a=a, b=b, step=step)
    elif kind == "redi":
        a = rng.choice([0, 3, -4])
        case.update(a=a, b=a + rng.choice([0, 1, 2, 5, 9, 17]))
    elif kind == "fill":
        case.update(n=rng.choice([0, 1, 2, 5, 9, 20]))
    else:
        n = rng.choice([1, 2, 4, 6, 9, 14, 20])
        case.update(n=n, k1=rng.randrange(-1, n + 1), k2=rng.randrange(-1, n + 1), kret=rng.randrange(-1, n + 1),
                    m=rng.choice([0, 3, 7]), use=rng.random() < 0.5)
    return case


def run_case(mod, lib, boom, case):
    """returns (result dict, violation or None)"""
    lib.simgomp_reset(case["sim_seed"], 4, case["policy"], 400000)
    gc.collect()
    boom_base = boom.LIVE[0]
    k, s = case["kind"], case["sched"]
    exc = None
    out = None
    arr = None
    try:
        if k == "red":
            out = getattr(mod, "red_" + s)(case["a"], case["b"], case["step"], case["nt"], case["chunk"])
        elif k == "redi":
            out = getattr(mod, "redi_" + s)(case["a"], case["b"], case["nt"], case["chunk"])
        elif k == "fill":
            arr = array.array("i", [0] * case["n"])
            out = getattr(mod, "fill_" + s)(arr, case["nt"], case["chunk"]) if case["n"] else getattr(mod, "fill_" + s)(arr, case["nt"], case["chunk"])
        elif k == "brk":
            out = getattr(mod, "brk_" + s)(case["n"], case["nt"], case["chunk"], case["k1"], case["k2"])
        elif k == "ret":
            out = getattr(mod, "ret_" + s)(case["n"], case["nt"], case["chunk"], case["k1"], case["k2"])
        elif k == "raise":
            out = getattr(mod, "raise_" + s)(case["n"], case["nt"], case["chunk"], case["k1"], case["k2"], case["kret"])
        elif k == "rb":
            out = getattr(mod, "rb_" + s)(case["n"], case["nt"], case["chunk"], case["k1"], case["k2"], case["kret"])
        elif k == "par_two":
            out = mod.par_two(case["n"], case["m"], case["nt"], case["chunk"])
        elif k == "par_local":
            out = mod.par_local(case["n"], case["nt"])
        elif k == "tmp":
            arr = array.array("l", [0] * max(1, case["n"]))
            darr = array.array("d", [0.0] * max(1, case["n"]))
            out = mod.tmp_reuse(case["n"], case["nt"], case["chunk"], arr, darr)
            out = (out, list(arr)[:case["n"]], list(darr)[:case["n"]])
        else:
            out = mod.cond_threads(case["n"], case["nt"], case["use"])
    except BaseException as e:
        exc = (type(e).__name__, list(e.args))
        e.__traceback__ = None
        del e
    stats = (ctypes.c_longlong * 8)()
    lib.simgomp_stats(stats)
    nlog = stats[7]
    buf = (ctypes.c_longlong * (3 * max(1, nlog)))()
    n = lib.simgomp_log(buf, nlog)
    log = [(buf[3 * j], buf[3 * j + 1], buf[3 * j + 2]) for j in range(n)]
    gc.collect()
    boom_live = boom.LIVE[0] - boom_base
    res = {"out": out, "exc": exc, "log": log, "digest": "%016x" % lib.simgomp_digest(),
           "stats": {"steps": stats[0], "switches": stats[1], "barriers": stats[2], "chunks": stats[3], "crit_blocks": stats[4],
                     "teams": stats[5], "gil_sections": stats[6]}}
    v = None

    def bad(klass, detail):
        return {"klass": klass, "detail": detail}
    started = [val for tag, val, th in log if tag == 1]
    if boom_live != 0:
        v = bad("exception-object-leak-or-double-free", {"live_boom_delta": boom_live})
    elif k == "red":
        exp = seq_range(case["a"], case["b"], case["step"])
        if sorted(started) != sorted(exp):
            v = bad("iterations-not-exactly-once", {"expected": sorted(exp), "got": sorted(started)})
        else:
            s_add = sum(exp)
            s_xor = 0
            s_or = 0
            s_and = -1
            p = 1
            d = 0.0
            for x in exp:
                s_xor ^= x
                s_or |= x
                s_and &= x
                p *= 1 + (x & 1)
                d += x * 0.5
            want = (exp[-1] if exp else -777, s_add, -s_add, s_xor, s_or, s_and, p, d, exp[-1] * 2 if exp else -1)
            got = tuple(out) if exc is None else None
            if got is None or list(got[:7]) != list(want[:7]) or abs(got[7] - want[7]) > 1e-9 * max(1.0, abs(want[7])) or got[8] != want[8]:
                v = bad("result-differs-from-sequential", {"want": want, "got": got, "exc": exc})
    elif k == "redi":
        exp = list(range(case["a"], case["b"]))
        want = (exp[-1] if exp else -777, sum(exp) % (1 << 32), sum(exp))
        if sorted(started) != exp:
            v = bad("iterations-not-exactly-once", {"expected": exp, "got": sorted(started)})
        elif exc is not None or tuple(out) != want:
            v = bad("result-differs-from-sequential", {"want": want, "got": out, "exc": exc})
    elif k == "fill":
        exp = list(range(case["n"]))
        if sorted(started) != exp:
            v = bad("iterations-not-exactly-once", {"expected": exp, "got": sorted(started)})
        elif exc is not None or list(arr) != [x * 3 + 1 for x in exp]:
            v = bad("result-differs-from-sequential", {"array": list(arr), "exc": exc})
    elif k == "tmp":
        n = case["n"]
        exp = list(range(n))
        H1 = lambda x: x * 3 + 1
        H2 = lambda x: x + 5
        H3 = lambda x: x * 0.5
        want = ((H1(n) + H2(n) * H1(n + 1), H3(n) + H3(n + 1.0), sum(H2(x) - H1(x) for x in exp)),
                [H1(x) + H2(x) * H1(x + 1) for x in exp], [H3(x) + H3(x + 1.0) for x in exp])
        if sorted(started) != exp:
            v = bad("iterations-not-exactly-once", {"expected": exp, "got": sorted(started)})
        elif exc is not None or [list(out[0]), out[1], out[2]] != [list(want[0]), want[1], want[2]]:
            v = bad("result-differs-from-sequential", {"want": want, "got": out, "exc": exc})
    elif k in ("par_two", "par_local", "cond"):
        exp = list(range(case["n"]))
        if sorted(started) != exp:
            v = bad("iterations-not-exactly-once", {"expected": exp, "got": sorted(started)})
        elif k == "par_two":
            second = sorted(val for tag, val, th in log if tag == 5)
            want = (sum(exp), sum(range(case["m"])) * 2)
            if second != list(range(case["m"])) or exc is not None or tuple(out) != want:
                v = bad("result-differs-from-sequential", {"want": want, "got": out, "second_loop": second, "exc": exc})
        elif exc is not None or out != sum(exp):
            v = bad("result-differs-from-sequential", {"want": sum(exp), "got": out, "exc": exc})
    else:
        n = case["n"]
        raised = [val for tag, val, th in log if tag == 2]
        returned = [val for tag, val, th in log if tag == 3]
        broke = [val for tag, val, th in log if tag == 4]
        else_ran = any(tag in (8, 9) for tag, val, th in log)
        dup = len(started) != len(set(started))
        if dup or any(not (0 <= x < n) for x in started):
            v = bad("iteration-executed-twice-or-out-of-range", {"started": sorted(started)})
        elif raised:
            after_region = any(tag == 7 for tag, val, th in log)
            if exc is None or exc[0] != "Boom" or exc[1][0] not in raised or after_region:
                v = bad("raised-exception-did-not-win", {"raised_in_iterations": raised, "outcome": out, "exc": exc, "code_after_region_ran": after_region})
        elif exc is not None:
            v = bad("exception-without-raising-iteration", {"exc": exc})
        elif returned:
            if out not in [x * 10 for x in returned] or else_ran:
                v = bad("return-value-not-from-a-returning-iteration", {"returned_in": returned, "outcome": out, "after_loop_code_ran": else_ran})
        elif broke:
            if else_ran:
                v = bad("else-clause-ran-after-break", {"broke_in": broke})
        else:
            if sorted(started) != list(range(n)) or not else_ran:
                v = bad("iterations-not-exactly-once", {"expected_all": n, "got": sorted(started), "after_loop_code_ran": else_ran})
            elif k in ("ret", "raise") and out != -1:
                v = bad("result-differs-from-sequential", {"want": -1, "got": out})
    return res, v


def one_run(check, seed, i, cfg):
    ms = cfg["module"]
    mod, lib, boom = load(ms)
    rng = core.rng_for(check, seed, i)
    res = {"probes": {}, "faults": {}, "n": 0, "nontrivial_digests": [], "steps": 0}
    for j in range(cfg["cases_per_run"]):
        case = gen_case(rng)
        r, v = run_case(mod, lib, boom, case)
        res["n"] += 1
        st = r["stats"]
        res["steps"] += st["steps"]
        for kk in ("switches", "barriers", "chunks", "crit_blocks", "gil_sections"):
            if st[kk]:
                res["faults"][kk] = res["faults"].get(kk, 0) + st[kk]
        res["probes"]["kind:" + case["kind"]] = res["probes"].get("kind:" + case["kind"], 0) + 1
        res["probes"]["sched:" + case["sched"]] = res["probes"].get("sched:" + case["sched"], 0) + 1
        if case["kind"] == "rb" and any(t == 2 for t, _, _ in r["log"]) and any(t == 4 for t, _, _ in r["log"]):
            res["probes"]["raise_and_break_in_one_region"] = res["probes"].get("raise_and_break_in_one_region", 0) + 1
        if case["kind"] in ("raise", "rb") and r["exc"]:
            res["probes"]["exception_handoff"] = res["probes"].get("exception_handoff", 0) + 1
            if len([1 for t, v_, th in r["log"] if t == 2]) >= 2:
                res["probes"]["several_iterations_raised"] = res["probes"].get("several_iterations_raised", 0) + 1
        if case["kind"] == "raise" and any(t == 2 for t, _, _ in r["log"]) and any(t == 3 for t, _, _ in r["log"]):
            res["probes"]["raise_and_return_in_one_region"] = res["probes"].get("raise_and_return_in_one_region", 0) + 1
        if st["switches"] > 0:
            res["nontrivial_digests"].append(core.digest([case["kind"], case["sched"], r["digest"], case["nt"]]))
        if v is not None and "violation" not in res:
            res["violation"] = dict(v, case=case, schedule_digest=r["digest"])
        if i % 200 == 0 and j == 0:
            res["sample"] = {"case": case, "schedule_digest": r["digest"], "stats": st, "log_head": r["log"][:8]}
    return res


def build_module(extra_cflags=(), extra_ldflags=(), name="wl37"):
    shim = build.build_simgomp()
    d = os.path.dirname(shim)
    so = build.build_ext(name, SRC, ".pyx", cflags=("-fopenmp",) + tuple(extra_cflags), split_link=True,
                         ldflags=tuple(extra_ldflags) + ("-L" + d, "-lsimgomp", "-Wl,-rpath," + d, "-Wl,--wrap=PyGILState_Ensure", "-Wl,--wrap=PyGILState_Release",
                                  "-Wl,--wrap=PyEval_SaveThread", "-Wl,--wrap=PyEval_RestoreThread"),
                         extra_files={"boomlib.py": BOOMLIB})
    return {"name": name, "so": so, "shim": shim}


def run_single(ms, case):
    mod, lib, boom = load(ms)
    r, v = run_case(mod, lib, boom, case)
    return dict(v, schedule_digest=r["digest"]) if v else None


def run_digest(ms, case):
    mod, lib, boom = load(ms)
    r, v = run_case(mod, lib, boom, case)
    return [r["digest"], r["out"] if not isinstance(r["out"], tuple) else list(r["out"]), r["exc"], r["log"]]


def replay(payload):
    core.stage()
    ms = build_module()
    st, r = core.run_one_forked(run_single, ms, payload["case"], timeout=60)
    print("replayed: %s %s" % (st, json.dumps(r)[:500] if r is not None else None))
    if payload.get("klass", "").startswith("crash"):
        return st == "crash"
    return st == "crash" or (st == "ok" and r is not None)


def check(tier):
    seed = core.env_seed()
    core.stage()
    rep = core.Report(PROP, ENGINE, tier, seed)
    rep.rule = ("prange/parallel workloads (reductions + - ^ | & * on long / unsigned / long long / double, lastprivate, disjoint array writes, two work-share loops in one "
                "parallel block, private locals, use_threads_if; exit bodies: break, return, raise in chosen iterations, raise + return in different iterations) for "
                "schedules static/dynamic/guided/runtime x chunk sizes x thread counts 1-8 x ranges incl. empty, negative and non-unit steps, compiled with gcc -fopenmp and linked "
                "against the deterministic runtime simgomp; per case a seed decides every baton hand-over (policies: uniform, run-until-blocked, round robin). "
                "oracle (a) no-exit bodies: every iteration exactly once, results/index/lastprivate == sequential; (b) exit bodies, from the recorded iteration log: a raising "
                "iteration's exception wins, else a returning iteration's value, else break skips the else clause; no iteration twice; no exception object leaked or freed twice; "
                "region terminates within the step budget (else deadlock/livelock). non-trivial = at least one baton switch; distinct = (kind, schedule, threads, interleaving digest)")
    rep.components = {"real": ["generated C for prange/parallel (ParallelStatNode ... ParallelRangeNode, exit/exception hand-off protocol)", "GCC's OpenMP lowering (-fopenmp)",
                               "CPython GIL and thread states, real pthreads"],
                      "stub": ["libgomp -> simgomp (team, barriers, criticals, dynamic/guided/runtime chunk hand-out, baton scheduler)", "memory model: sequentially consistent"]}
    rep.assumptions = ["interleavings are explored at yield-point granularity under sequential consistency: weak-memory reorderings (flush placement bugs) are out of reach",
                       "real libgomp, with-GIL prange and free-threaded builds are not covered", "the exhaustive model of the hand-off protocol named in the quantifier is model checking and not done"]
    budget = core.env_budget(50 if tier == "quick" else 900)
    ms = build_module()
    cfg = {"module": ms, "cases_per_run": 60, "case_timeout_s": 120}
    deadline = time.time() + budget
    n = 640 if tier == "quick" else 10 ** 8
    batch = 640 if tier == "quick" else 6400
    start, viol = 0, []
    while start < n and time.time() < deadline:
        results = core.run_forked(one_run, PROP, seed, range(start, min(n, start + batch)), cfg, deadline=deadline)
        for i, r in results:
            if "crash" in r:
                viol.append((i, {"klass": "crash-or-deadlock", "detail": {"exit": r["crash"], "note": "exit 71 = deadlock, 72 = step budget (livelock), number = signal"},
                                 "case": None}))
                continue
            if "harness_error" in r:
                rep.harness_errors.append(r["harness_error"])
                continue
            rep.absorb(r)
            if "violation" in r:
                viol.append((i, r["violation"]))
        start += batch
        if viol:
            break
    core.replay_known(PROP, replay, rep)
    # determinism: same cases twice in fresh processes must give identical interleaving digests, outputs and logs
    rng = core.rng_for(PROP + ":det", seed, 0)
    cases = [gen_case(rng) for _ in range(12)]
    mism = 0
    for c in cases:
        a = core.run_one_forked(run_digest, ms, c, timeout=60)
        b = core.run_one_forked(run_digest, ms, c, timeout=60)
        if a != b:
            mism += 1
    rep.determinism = {"seeds": len(cases), "mismatches": mism}
    if mism:
        rep.harness_errors.append("determinism self-check failed: %d of %d cases replay differently" % (mism, len(cases)))
    seen = set()
    for i, v in viol:
        if v.get("case") is None:
            rng = core.rng_for(PROP, seed, i)
            found = None
            for j in range(cfg["cases_per_run"]):
                c = gen_case(rng)
                st, r = core.run_one_forked(run_single, ms, c, timeout=60)
                if st == "crash":
                    found = (c, r)
                    break
            if found is None:
                rep.harness_errors.append("run %d crashed a worker but no single case reproduces it" % i)
                continue
            v = dict(v, case=found[0], detail=dict(v["detail"], exit=found[1]))
        if v["klass"] in seen:
            continue
        seen.add(v["klass"])
        rep.violation("%s (run %s): %s" % (v["klass"], i, json.dumps(v["detail"])[:300]), dict(v, seed=seed, run_index=i, property=PROP))
    rep.extra["simulated_time_s"] = "none: logical steps only (sim_steps = granted runtime entries/yields)"
    return rep.finish()
