"""E10 stream-seam — C50.  The real Plex engine (Lexicon -> NFA -> DFA ->
Scanner.read) fed by a simulated stream whose read() returns seeded short
chunks; token sequences must be independent of the chunking and equal to an
independent set-based reference matcher over the scanner's symbol stream.

Second workload: the real Cython lexicon (PyrexScanner) over corpus files,
whole-read vs. seeded chunkings.
"""
import io
import os
import time

from . import core

PROP = "C50"
ENGINE = "E10-stream"

ALPHA = "abcAB"
BOL, EOL, EOF = "bol", "eol", "eof"


# --------------------------------------------------------------------------
# regex AST generation

def gen_re(rng, depth):
    r = rng.random()
    if depth <= 0 or r < 0.30:
        k = rng.random()
        if k < 0.35:
            n = rng.choice([1, 1, 2, 2, 3])
            return ("str", "".join(rng.choice(ALPHA + "\n") if rng.random() < 0.9 else "\n" for _ in range(n)))
        if k < 0.55:
            return ("any", "".join(sorted(set(rng.choice(ALPHA + "\n") for _ in range(rng.randint(1, 3))))))
        if k < 0.68:
            return ("anybut", "".join(sorted(set(rng.choice(ALPHA + "\n") for _ in range(rng.randint(0, 2))))))
        if k < 0.76:
            a, b = sorted([rng.choice("abc"), rng.choice("abc")])
            return ("range", a, b)
        if k < 0.84:
            return ("bol",)
        if k < 0.93:
            return ("eol",)
        if k < 0.96:
            return ("eof",)
        return ("anychar",)
    if r < 0.55:
        return ("seq",) + tuple(gen_re(rng, depth - 1) for _ in range(rng.randint(2, 3)))
    if r < 0.70:
        return ("alt",) + tuple(gen_re(rng, depth - 1) for _ in range(rng.randint(2, 3)))
    if r < 0.80:
        return ("rep", gen_re(rng, depth - 1))
    if r < 0.90:
        return ("rep1", gen_re(rng, depth - 1))
    if r < 0.96:
        return ("opt", gen_re(rng, depth - 1))
    return ("nocase", gen_re(rng, depth - 1))


def to_plex(ast):
    from Cython.Plex import Regexps as R
    k = ast[0]
    if k == "str":
        return R.Str(ast[1])
    if k == "any":
        return R.Any(ast[1])
    if k == "anybut":
        return R.AnyBut(ast[1])
    if k == "range":
        return R.Range(ast[1], ast[2])
    if k == "anychar":
        return R.AnyChar
    if k == "bol":
        return R.Bol
    if k == "eol":
        return R.Eol
    if k == "eof":
        return R.Eof
    if k == "seq":
        return R.Seq(*[to_plex(a) for a in ast[1:]])
    if k == "alt":
        return R.Alt(*[to_plex(a) for a in ast[1:]])
    if k == "rep":
        return R.Rep(to_plex(ast[1]))
    if k == "rep1":
        return R.Rep1(to_plex(ast[1]))
    if k == "opt":
        return R.Opt(to_plex(ast[1]))
    if k == "nocase":
        return R.NoCase(to_plex(ast[1]))
    raise ValueError(ast)


# --------------------------------------------------------------------------
# reference matcher over the symbol stream
#   symbols: (kind, char, charpos, line, col); kind in {"c", BOL, EOL, EOF}

def symbols(text):
    syms = []
    line, col, pos = 1, 0, 0
    syms.append((BOL, "", 0, 1, 0))
    for ch in text:
        if ch == "\n":
            syms.append((EOL, "", pos, line, col))
            syms.append(("c", "\n", pos, line, col))
            pos += 1
            line += 1
            col = 0
            syms.append((BOL, "", pos, line, 0))
        else:
            syms.append(("c", ch, pos, line, col))
            pos += 1
            col += 1
    syms.append((EOL, "", pos, line, col))
    syms.append((EOF, "", pos, line, col))
    return syms


def _pred(ast, nocase):
    k = ast[0]
    if k == "any":
        s = set(ast[1])
        f = lambda c: c in s
    elif k == "anybut":
        s = set(ast[1])
        f = lambda c: c not in s
    elif k == "range":
        a, b = ast[1], ast[2]
        f = lambda c: a <= c <= b
    elif k == "anychar":
        f = lambda c: True
    elif k == "chr":
        ch = ast[1]
        f = lambda c: c == ch
    else:
        raise ValueError(ast)
    if nocase:
        g = f
        f = lambda c: g(c) or (c.isascii() and c.isalpha() and (g(c.lower()) or g(c.upper())))
    return f


def ends(ast, syms, i, nocase=False):
    """Set of symbol indices at which a match of ast starting at index i can end."""
    n = len(syms)
    k = ast[0]
    if k in ("any", "anybut", "range", "anychar", "chr"):
        f = _pred(ast, nocase)
        out = set()
        starts = [i]
        if i < n and syms[i][0] == BOL:
            starts.append(i + 1)
        for j in starts:
            if j >= n:
                continue
            if syms[j][0] == "c" and syms[j][1] != "\n" and f(syms[j][1]):
                out.add(j + 1)
            if f("\n"):
                kk = j
                if syms[kk][0] == EOL and kk + 1 < n:
                    kk2 = kk + 1
                    if syms[kk2][0] == "c" and syms[kk2][1] == "\n":
                        out.add(kk2 + 1)
                if syms[kk][0] == "c" and syms[kk][1] == "\n":
                    out.add(kk + 1)
        return out
    if k == "str":
        cur = {i}
        for ch in ast[1]:
            nxt = set()
            for j in cur:
                nxt |= ends(("chr", ch), syms, j, nocase)
            cur = nxt
            if not cur:
                break
        return cur
    if k == "bol":
        return {i + 1} if i < n and syms[i][0] == BOL else set()
    if k == "eol":
        out = set()
        if i < n and syms[i][0] == EOL:
            out.add(i + 1)
        if i + 1 < n and syms[i][0] == BOL and syms[i + 1][0] == EOL:
            out.add(i + 2)
        return out
    if k == "eof":
        return {i + 1} if i < n and syms[i][0] == EOF else set()
    if k == "seq":
        cur = {i}
        for a in ast[1:]:
            nxt = set()
            for j in cur:
                nxt |= ends(a, syms, j, nocase)
            cur = nxt
            if not cur:
                break
        return cur
    if k == "alt":
        out = set()
        for a in ast[1:]:
            out |= ends(a, syms, i, nocase)
        return out
    if k == "opt":
        return {i} | ends(ast[1], syms, i, nocase)
    if k in ("rep", "rep1"):
        seen = set()
        frontier = ends(ast[1], syms, i, nocase)
        while frontier:
            j = frontier.pop()
            if j in seen:
                continue
            seen.add(j)
            frontier |= ends(ast[1], syms, j, nocase) - seen
        if k == "rep":
            seen.add(i)
        return seen
    if k == "nocase":
        return ends(ast[1], syms, i, True)
    raise ValueError(ast)


def model_scan(rules, text, cap):
    """Reference token list: [(rule index, text, line, col)], and end class."""
    syms = symbols(text)
    n = len(syms)
    i = 0
    toks = []
    while len(toks) < cap:
        best, bestk = -1, None
        for k, r in enumerate(rules):
            e = ends(r, syms, i)
            if e:
                m = max(e)
                if m > best:
                    best, bestk = m, k
        if bestk is None:
            cp = syms[i][2] if i < n else len(text)
            return toks, ("end" if cp >= len(text) else "error")
        s = syms[i] if i < n else syms[-1]
        endpos = syms[best][2] if best < n else len(text)
        toks.append(("r%d" % bestk, text[s[2]:endpos], s[3], s[4]))
        i = best
    return toks, "cap"


# --------------------------------------------------------------------------
# the seam: a stream whose read() returns seeded short chunks

class SimStream:
    def __init__(self, text, cuts, stats=None):
        """cuts: sorted list of absolute offsets at which a read must stop."""
        self.text, self.pos = text, 0
        self.cuts = cuts
        self.stats = stats if stats is not None else {}
        self.scanner = None
        self.reads = []

    def read(self, n=-1):
        if n is None or n < 0:
            n = len(self.text)
        end = min(len(self.text), self.pos + n)
        for c in self.cuts:
            if self.pos < c < end:
                end = c
                break
        data = self.text[self.pos:end]
        st = self.stats
        if self.pos + len(data) < len(self.text) and len(data) < n:
            st["short_read"] = st.get("short_read", 0) + 1
        sc = self.scanner
        if sc is not None and data:
            if sc.start_pos < self.pos:
                st["refill_inside_token"] = st.get("refill_inside_token", 0) + 1
            if self.pos > 0 and self.text[self.pos - 1] == "\n":
                st["refill_after_newline"] = st.get("refill_after_newline", 0) + 1
        if not data:
            st["eof_read"] = st.get("eof_read", 0) + 1
        self.reads.append(len(data))
        self.pos += len(data)
        return data


def gen_cuts(rng, text, style):
    n = len(text)
    if style == "whole" or n == 0:
        return []
    if style == "every":
        return list(range(1, n))
    if style == "pairs":
        return list(range(2, n, 2))
    cuts = set()
    if style == "newline":
        for i, ch in enumerate(text):
            if ch == "\n":
                cuts.add(i)
                cuts.add(i + 1)
    k = rng.randint(1, max(1, min(8, n)))
    for _ in range(k):
        cuts.add(rng.randrange(1, n + 1))
    return sorted(c for c in cuts if 0 < c < n)


def real_scan(lexicon, text, cuts, cap, stats=None):
    from Cython.Plex import Scanners, Errors
    st = SimStream(text, cuts, stats)
    sc = Scanners.Scanner(lexicon, st, "t")
    st.scanner = sc
    toks = []
    while len(toks) < cap:
        try:
            val, txt = sc.read()
        except Errors.UnrecognizedInput:
            return toks, "error", st.reads
        if val is None:
            return toks, "end", st.reads
        _, line, col = sc.position()
        toks.append((val, txt, line, col))
    return toks, "cap", st.reads


def gen_text(rng, long_ok):
    if long_ok and rng.random() < 0.02:
        unit = "".join(rng.choice(ALPHA + "\n") for _ in range(rng.randint(1, 7)))
        n = rng.choice([4090, 4095, 4096, 4097, 4100, 8191, 8192, 8193])
        return (unit * (n // len(unit) + 1))[:n]
    n = rng.choice([0, 1, 2, 3, 4, 5, 5, 6, 7, 8, 10, 14])
    return "".join(rng.choice(ALPHA) if rng.random() < 0.75 else "\n" for _ in range(n))


_lex_cache = {}


def build_lexicon(rules):
    from Cython.Plex import Lexicons
    key = repr(rules)
    lx = _lex_cache.get(key)
    if lx is None:
        if len(_lex_cache) > 64:
            _lex_cache.clear()
        lx = Lexicons.Lexicon([(to_plex(r), "r%d" % k) for k, r in enumerate(rules)])
        _lex_cache[key] = lx
    return lx


def compare(model, real, text):
    """-> None if compatible, else description.  At true end of input a
    lexicon without an Eof rule may end by error or by eof token: both accepted."""
    mt, mend = model
    rt, rend = real[0], real[1]
    if mt != rt:
        for k in range(max(len(mt), len(rt))):
            a = mt[k] if k < len(mt) else None
            b = rt[k] if k < len(rt) else None
            if a != b:
                return {"first_diff_token": k, "model": a, "real": b}
    if mend == "cap" or rend == "cap":
        return None if mend == rend else {"end_model": mend, "end_real": rend}
    if mend == "error" and rend != "error":
        return {"end_model": mend, "end_real": rend, "note": "unmatched input not reported as error"}
    if mend == "end" and rend == "error":
        # allowed only when all characters were consumed
        consumed = sum(len(t[1]) for t in rt)
        if consumed < len(text):
            return {"end_model": mend, "end_real": rend}
    return None


def one_case(rules, text, cutsets, cap):
    """Returns (violation or None, stats)."""
    stats = {}
    lx = build_lexicon(rules)
    whole = real_scan(lx, text, [], cap, stats)
    v = None
    if len(text) <= 64:   # the set-based reference is quadratic+ in text length
        m = model_scan(rules, text, cap)
        d = compare(m, whole, text)
        if d is not None:
            v = {"klass": "model-mismatch", "detail": d}
    for cuts in cutsets:
        if v is not None:
            break
        r = real_scan(lx, text, cuts, cap, stats)
        if (r[0], r[1]) != (whole[0], whole[1]):
            k = 0
            while k < min(len(r[0]), len(whole[0])) and r[0][k] == whole[0][k]:
                k += 1
            v = {"klass": "chunking-dependence",
                 "detail": {"cuts": cuts, "first_diff_token": k,
                            "whole": (whole[0][k:k + 2], whole[1]), "chunked": (r[0][k:k + 2], r[1])}}
    return v, stats, whole


def one_run(check, seed, i, cfg):
    rng = core.rng_for(check, seed, i)
    nr = rng.randint(1, 4)
    rules = [gen_re(rng, rng.randint(0, 3)) for _ in range(nr)]
    res = {"probes": {}, "faults": {}, "n": 0, "nontrivial_digests": []}
    ntexts = cfg["texts_per_lexicon"]
    try:
        build_lexicon(rules)
    except Exception as e:
        # a lexicon Plex refuses to build is not this property's business
        res["probes"]["lexicon_build_error:" + type(e).__name__] = 1
        res["n"] = 1
        return res
    for t in range(ntexts):
        text = gen_text(rng, cfg["long"])
        styles = ["every", rng.choice(["random", "newline", "pairs"]), "random"]
        cutsets = [gen_cuts(rng, text, s) for s in styles]
        cap = min(len(text) + 6, 300)
        case = {"rules": rules, "text": text, "cutsets": cutsets}
        try:
            v, stats, whole = one_case(rules, text, cutsets, cap)
        except Exception as e:
            import traceback
            v, stats, whole = {"klass": "exception", "detail": traceback.format_exc()[-800:]}, {}, ([], "?", [])
        res["n"] += 1
        for k, c in stats.items():
            res["faults"][k] = res["faults"].get(k, 0) + c
        if len(text) >= 4090:
            res["probes"]["text_crosses_0x1000"] = res["probes"].get("text_crosses_0x1000", 0) + 1
        if whole[1] == "error":
            res["probes"]["unrecognized_input"] = res["probes"].get("unrecognized_input", 0) + 1
        if any(tk[1] == "" for tk in whole[0]):
            res["probes"]["zero_width_token"] = res["probes"].get("zero_width_token", 0) + 1
        if len(whole[0]) >= 2:
            res["probes"]["multi_token"] = res["probes"].get("multi_token", 0) + 1
        if stats.get("refill_inside_token") and len(text) < 4000:
            res["nontrivial_digests"].append(core.digest(case))
        if v is not None and "violation" not in res:
            res["violation"] = dict(v, case=case)
        if i % 499 == 0 and t == 0:
            res["sample"] = case
    res["steps"] = res["n"] * 4
    return res


# --------------------------------------------------------------------------
# real Cython lexicon over corpus files

def pyrex_tokens(text, cuts, stats=None):
    from Cython.Compiler import Scanning, Errors as CErrors
    from Cython.Compiler.Symtab import ModuleScope
    from Cython.Compiler.TreeFragment import StringParseContext
    src = Scanning.StringSourceDescriptor("corpus", text)
    st = SimStream(text, cuts, stats)
    ctx = StringParseContext("corpus")
    scope = ModuleScope("corpus", None, None)
    toks = []
    try:
        sc = Scanning.PyrexScanner(st, src, scope=scope, context=ctx)
        st.scanner = sc
        n = 0
        while sc.sy != "EOF" and n < 200000:
            toks.append((sc.sy, sc.systring, sc.position()[1:]))
            sc.next()
            n += 1
        toks.append(("EOF",))
    except CErrors.CompileError as e:
        toks.append(("CompileError", str(e)[:80]))
    except Exception as e:
        toks.append(("Exception", type(e).__name__, str(e)[:80]))
    return toks


def corpus_files(limit):
    root = os.path.join(core.REPO, "tests", "run")
    out = []
    try:
        names = sorted(os.listdir(root))
    except OSError:
        names = []
    for n in names:
        if n.endswith((".pyx", ".py")) and not n.startswith("_cython_inline"):
            p = os.path.join(root, n)
            try:
                if 200 < os.path.getsize(p) < 30000:
                    out.append(p)
            except OSError:
                pass
    return out[:limit] if limit else out


def corpus_run(check, seed, i, cfg):
    files = cfg["files"]
    path = files[i % len(files)]
    rng = core.rng_for(check + ":corpus", seed, i)
    with open(path, encoding="utf8", errors="replace") as f:
        text = f.read()
    res = {"probes": {"corpus_cases": 1}, "faults": {}, "n": 1}
    stats = {}
    whole = pyrex_tokens(text, [])
    style = rng.choice(["random", "newline", "sparse"])
    n = len(text)
    if style == "sparse":
        cuts = sorted(set(rng.randrange(1, n) for _ in range(rng.randint(1, 6))))
    elif style == "newline":
        cuts = sorted(set([j + 1 for j, ch in enumerate(text) if ch == "\n" and rng.random() < 0.5]) - {n})
    else:
        cuts, p = [], 0
        while True:
            p += rng.choice([1, 2, 3, 5, 8, 13, 64, 200])
            if p >= n:
                break
            cuts.append(p)
    chunked = pyrex_tokens(text, cuts, stats)
    res["faults"] = stats
    case = {"corpus_file": os.path.relpath(path, core.REPO), "cuts": cuts}
    res["digest"] = core.digest(case)
    res["nontrivial"] = bool(stats.get("refill_inside_token"))
    if chunked != whole:
        k = 0
        while k < min(len(chunked), len(whole)) and chunked[k] == whole[k]:
            k += 1
        res["violation"] = {"klass": "chunking-dependence-cython-lexicon",
                            "detail": {"first_diff_token": k, "whole": whole[k:k + 2], "chunked": chunked[k:k + 2]},
                            "case": case}
    res["steps"] = len(whole)
    return res


# --------------------------------------------------------------------------

def _violates(case, klass):
    cap = min(len(case["text"]) + 6, 300)
    try:
        v, _, _ = one_case(case["rules"], case["text"], case["cutsets"], cap)
    except Exception:
        return klass == "exception"
    return v is not None and v["klass"] == klass


def _shrink_ast(ast):
    """Candidate simplifications of one regex AST."""
    k = ast[0]
    if k in ("seq", "alt"):
        for j in range(1, len(ast)):
            yield ast[j]
            if len(ast) > 3:
                yield ast[:j] + ast[j + 1:]
        for j in range(1, len(ast)):
            for s in _shrink_ast(ast[j]):
                yield ast[:j] + (s,) + ast[j + 1:]
    elif k in ("rep", "rep1", "opt", "nocase"):
        yield ast[1]
        for s in _shrink_ast(ast[1]):
            yield (k, s)
    elif k in ("str", "any", "anybut") and len(ast[1]) > 1:
        for j in range(len(ast[1])):
            yield (k, ast[1][:j] + ast[1][j + 1:])


def minimise(v):
    case, klass = v["case"], v["klass"]
    if "corpus_file" in case:
        return v
    case = {"rules": [tuple_deep(r) for r in case["rules"]], "text": case["text"], "cutsets": case["cutsets"]}
    deadline = time.time() + 30
    changed = True
    while changed and time.time() < deadline:
        changed = False
        # fewer rules
        for j in range(len(case["rules"])):
            if len(case["rules"]) > 1:
                c = dict(case, rules=case["rules"][:j] + case["rules"][j + 1:])
                if _violates(c, klass):
                    case, changed = c, True
                    break
        # shorter text
        t = case["text"]
        for j in range(len(t)):
            c = dict(case, text=t[:j] + t[j + 1:], cutsets=[[x for x in cs if x < len(t) - 1] for cs in case["cutsets"]])
            if _violates(c, klass):
                case, changed = c, True
                break
        # simpler regexes
        for j, r in enumerate(case["rules"]):
            done = False
            for s in _shrink_ast(r):
                c = dict(case, rules=case["rules"][:j] + [s] + case["rules"][j + 1:])
                try:
                    if _violates(c, klass):
                        case, changed, done = c, True, True
                        break
                except Exception:
                    pass
            if done:
                break
        # fewer cutsets
        if len(case["cutsets"]) > 1:
            for j in range(len(case["cutsets"])):
                c = dict(case, cutsets=case["cutsets"][:j] + case["cutsets"][j + 1:])
                if _violates(c, klass):
                    case, changed = c, True
                    break
    cap = min(len(case["text"]) + 6, 300)
    try:
        nv, _, _ = one_case(case["rules"], case["text"], case["cutsets"], cap)
    except Exception:
        nv = None
    if nv is None or nv["klass"] != klass:
        return v
    return dict(nv, case=dict(case, minimised=True))


def tuple_deep(x):
    if isinstance(x, (list, tuple)):
        return tuple(tuple_deep(y) for y in x)
    return x


def replay(payload):
    core.use_stage()
    case = payload["case"]
    if "corpus_file" in case:
        with open(os.path.join(core.REPO, case["corpus_file"]), encoding="utf8", errors="replace") as f:
            text = f.read()
        a, b = pyrex_tokens(text, []), pyrex_tokens(text, case["cuts"])
        print("replayed: corpus %s -> %s" % (case["corpus_file"], "differs" if a != b else "same"))
        return a != b
    rules = [tuple_deep(r) for r in case["rules"]]
    cap = min(len(case["text"]) + 6, 300)
    try:
        v, _, _ = one_case(rules, case["text"], case["cutsets"], cap)
    except Exception as e:
        print("replayed: exception %r" % (e,))
        return payload.get("klass") == "exception"
    print("replayed: %s" % (v,))
    return v is not None and v["klass"] == payload.get("klass")


def check(tier):
    seed = core.env_seed()
    core.use_stage()
    rep = core.Report(PROP, ENGINE, tier, seed)
    rep.rule = ("generated lexicons (1-4 rules over Str/Any/AnyBut/Range/AnyChar/Seq/Alt/Rep/Rep1/Opt/NoCase/Bol/Eol/Eof) x generated texts "
                "(len 0-14 over {a,b,c,A,B,newline}; ~2% of length 4090-8193 to cross the 0x1000 refill) x 3 seeded chunkings of the stream "
                "(every char, at/after newlines, random cuts) + whole read; plus the real Cython lexicon over tests/run files under seeded chunkings. "
                "oracles: token (rule,text,line,col) sequence identical for all chunkings; whole-read equals the reference matcher. "
                "non-trivial = a refill happened while a token was partly scanned (short texts) / corpus case with such a refill; distinct = case digest")
    rep.components = {"real": ["Cython/Plex Regexps, Machines, DFA, Transitions, Lexicons, Scanners (pure-Python staged copy)",
                               "Cython/Compiler/Lexicon.py + Scanning.PyrexScanner for the corpus workload"],
                      "stub": ["input stream (SimStream: seeded short reads)"]}
    rep.assumptions = ["longest match is measured on the scanner's symbol stream (BOL/EOL/EOF are symbols), the engine's own definition",
                       "at true end of input a lexicon with no Eof rule may end by UnrecognizedInput or eof token; both accepted",
                       "clause (b) (reference matcher) is input generation labelled as such; clause (a) is the simulated seam"]
    budget = core.env_budget(70 if tier == "quick" else 900)
    deadline = time.time() + budget
    cfg = {"texts_per_lexicon": 6, "long": True, "case_timeout_s": 120}
    n = 12000 if tier == "quick" else 10 ** 9
    batch = 12000
    start, viol = 0, []
    while start < n and time.time() < deadline - (15 if tier == "quick" else min(120, budget * 0.2)):
        results = core.run_batch(one_run, PROP, seed, range(start, min(n, start + batch)), cfg, deadline=deadline)
        for i, r in results:
            if "harness_error" in r:
                rep.harness_errors.append(r["harness_error"])
                continue
            rep.absorb(r)
            if "violation" in r:
                viol.append((i, r["violation"]))
        start += batch
        if viol:
            break
    # corpus workload
    files = corpus_files(0)
    if files:
        ncorp = 160 if tier == "quick" else 4000
        results = core.run_batch(corpus_run, PROP, seed, range(ncorp), {"files": files, "case_timeout_s": 300}, chunk=4, deadline=deadline + 30)
        for i, r in results:
            if "harness_error" in r:
                rep.harness_errors.append(r["harness_error"])
                continue
            rep.absorb(r)
            if "violation" in r:
                viol.append((i, r["violation"]))
    else:
        rep.probes["corpus_cases"] = 0
    # determinism self-check
    chk = [0, 1, 2, 3, 5, 8, 13, 21]
    a = [core.digest(one_run(PROP, seed, k, cfg)) for k in chk]
    b = [core.digest(dict(core.run_batch(one_run, PROP, seed, chk, cfg, jobs=2))[k]) for k in chk]
    rep.determinism = {"seeds": len(chk), "mismatches": sum(x != y for x, y in zip(a, b))}
    if rep.determinism["mismatches"]:
        rep.harness_errors.append("determinism self-check failed")
    seen = set()
    for i, v in viol:
        if v["klass"] in seen:
            continue
        seen.add(v["klass"])
        v = minimise(v)
        rep.violation("%s (run %s)" % (v["klass"], i), dict(v, seed=seed, run_index=i))
    rep.extra["clock"] = "none (the scanner has no timers)"
    return rep.finish()
