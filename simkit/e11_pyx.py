"""E11 typed-.pyx family — a workload family for the riders and for C35.

The E3-E6 workloads are pure-Python syntax so that CPython can be the model.
Code that only exists in Cython's own language (cdef functions with every
exception specification incl. noexcept, cpdef methods, cdef classes with
__next__ / __enter__ / properties / typed attributes, typed locals and
conversions, nogil sections) is generated here.  There is no CPython model
for it; it is run under the observers that need none:

  C45  trace/profile event monitor          (riders.check_C45)
  C35  refnanny + live-object conservation  (e5_refs.check_C35)
  C36  ASan/UBSan                           (riders.check_C36)
  C39  default build vs configuration cell  (riders.check_C39)

As in E4 the program is fixed at build time and the fault plan (probe
occurrence -> exception to raise / value to return) decides what fails where.
"""
import json
import os
import sys
import time

from . import core, build

ENGINE = "E11-typed-pyx"
SEAMDIR = os.path.dirname(os.path.abspath(__file__))

EXC_CATALOGUE = ["E1", "E2", "E3", "Inj", "KeyError", "StopIteration"]
RET_VALUES = ["s", 2 ** 70, None, 2.5]      # values a probe can return instead of None: make typed conversions fail


class PG:
    """Emits one .pyx module and the facts the observers need (def spans, functions hit by known finding F19)."""

    def __init__(self, rng):
        self.rng = rng
        self.lines = []
        self.pk = 0
        self.spans = {}         # function name -> [(first, last)]
        self.f19 = set()
        self.cfuncs = {"ne": [], "ex": [], "exq": [], "obj": [], "void": [], "dbl": [], "ng": [], "cp": []}
        self.its, self.cms, self.props = [], [], []

    # -- helpers
    def emit(self, s):
        self.lines.append(s)

    def p(self):
        self.pk += 1
        return "P(%d)" % self.pk

    def x(self):
        self.pk += 1
        return "X(%d)" % self.pk

    def begin(self, name):
        self._cur = (name, len(self.lines) + 1)

    def end(self):
        name, first = self._cur
        self.spans.setdefault(name, []).append((first, len(self.lines)))

    def cbody(self, ind, kind, depth=1):
        """Body statements of a C-level helper: probes, conditional raises, try/finally, try/except, with."""
        r = self.rng
        out = []
        for _ in range(r.randint(1, 3)):
            q = r.random()
            if q < 0.40:
                out.append(ind + self.p())
            elif q < 0.55:
                out.append("%sif a == %d: raise %s(%d)" % (ind, r.randint(0, 2), r.choice(["E1", "E2", "E3"]), self.pk))
            elif q < 0.70 and depth > 0:
                out.append(ind + "try:")
                out += self.cbody(ind + "    ", kind, depth - 1)
                out.append(ind + "finally:")
                out.append(ind + "    " + self.p())
            elif q < 0.85 and depth > 0:
                out.append(ind + "try:")
                out += self.cbody(ind + "    ", kind, depth - 1)
                out.append("%sexcept %s:" % (ind, r.choice(["E1", "E2", "Exception", "BaseException"])))
                out.append(ind + "    " + self.x())
                if r.random() < 0.3:
                    out.append(ind + "    raise")
            elif depth > 0:
                out.append("%swith CM(%d, %s, False, %s):" % (ind, self.pk + 500, r.random() < 0.3, r.random() < 0.15))
                out += self.cbody(ind + "    ", kind, depth - 1)
            else:
                out.append(ind + self.p())
        return out

    def gen_cfuncs(self):
        r = self.rng
        specs = [
            ("ne", "cdef int c_ne%d(int a) noexcept:", "return a + 1"),
            ("ex", "cdef int c_ex%d(int a) except -1:", "return a + 2"),
            ("exq", "cdef int c_exq%d(int a) except? -1:", "return -1 if a == 1 else a"),
            ("obj", "cdef object c_obj%d(object a):", "return Tracked(%d)"),
            ("void", "cdef void c_void%d(int a) except *:", None),
            ("dbl", "cdef double c_dbl%d(double a) except? -1.0:", "return a * 0.5 - 1.0"),
            ("cp", "cpdef object cp%d(a):", "return (%d, a)"),
        ]
        for kind, head, ret in specs:
            for j in range(2):
                name = head.split("(")[0].split()[-1] % j
                self.begin(name)
                self.emit(head % j)
                if kind == "dbl":
                    body = [l.replace("if a == ", "if a == 1.0 * ") for l in self.cbody("    ", kind)]
                else:
                    body = self.cbody("    ", kind)
                if any(l.strip().startswith("return") for l in body):
                    pass
                for l in body:
                    self.emit(l)
                if ret:
                    self.emit("    " + (ret % j if "%d" in ret else ret))
                self.end()
                self.emit("")
                self.cfuncs[kind].append(name)
        # a GIL-holding cdef function that returns from inside a nogil block
        name = "c_ngr0"
        self.begin(name)
        self.emit("cdef int c_ngr0(int a) noexcept:")
        self.emit("    with nogil:")
        self.emit("        if a == 1:")
        self.emit("            return 7")
        self.emit("    return a + 4")
        self.end()
        self.emit("")
        self.cfuncs["ngr"] = [name]
        # functions that return from the else clause of a prange loop (the clause runs after the parallel section, with the GIL)
        self.begin("c_pre0")
        self.emit("cdef object c_pre0(int a):")
        self.emit("    cdef int i")
        self.emit("    cdef int s = 0")
        self.emit("    for i in prange(a + 1, nogil=True):")
        self.emit("        s += i")
        self.emit("    else:")
        self.emit("        if a != 1:")
        self.emit("            with gil:")
        self.emit("                return (a, 0)")
        self.emit("    " + self.p())
        self.emit("    return (s, 1)")
        self.end()
        self.emit("")
        self.begin("d_pre0")
        self.emit("def d_pre0(int a):")
        self.emit("    cdef int i")
        self.emit("    cdef int s = 0")
        self.emit("    for i in prange(a + 2, nogil=True):")
        self.emit("        s += i")
        self.emit("    else:")
        self.emit("        with gil:")
        self.emit("            " + self.p())
        self.emit("            return a + 9")
        self.end()
        self.emit("")
        # nogil helper re-acquiring the GIL for a probe
        for j in range(1):
            name = "c_ng%d" % j
            self.begin(name)
            self.emit("cdef int %s(int a) noexcept nogil:" % name)
            self.emit("    with gil:")
            self.emit("        " + self.p())
            self.emit("    return a + 3")
            self.end()
            self.emit("")
            self.cfuncs["ng"].append(name)

    def gen_classes(self):
        r = self.rng
        for j in range(2):
            cname = "It%d" % j
            self.emit("cdef class %s:" % cname)
            self.emit("    cdef int i, n")
            self.begin("__init__")
            self.emit("    def __init__(self, n):")
            self.emit("        self.i = 0")
            self.emit("        self.n = n")
            self.end()
            self.begin("__iter__")
            self.emit("    def __iter__(self):")
            self.emit("        return self")
            self.end()
            self.begin("__next__")
            self.emit("    def __next__(self):")
            self.emit("        " + self.p())
            if j == 0:
                self.emit("        if self.i >= self.n:")
                self.emit("            raise StopIteration")
            else:
                # the exhausted case inside try/finally: the StopIteration shortcut must still run the finally clause
                self.emit("        try:")
                self.emit("            if self.i >= self.n:")
                self.emit("                raise StopIteration")
                self.emit("        finally:")
                self.emit("            " + self.p())
            self.emit("        self.i += 1")
            self.emit("        return Tracked(self.i)")
            self.end()
            self.emit("")
            self.its.append(cname)
        for j in range(2):
            cname = "Cm%d" % j
            self.emit("cdef class %s:" % cname)
            self.emit("    cdef bint suppress")
            self.begin("__init__")
            self.emit("    def __init__(self, suppress):")
            self.emit("        self.suppress = suppress")
            self.end()
            self.begin("__enter__")
            self.emit("    def __enter__(self):")
            self.emit("        " + self.p())
            self.emit("        return Tracked(%d)" % (70 + j))
            self.end()
            self.begin("__exit__")
            self.emit("    def __exit__(self, t, v, tb):")
            self.emit("        " + self.p())
            self.emit("        return self.suppress")
            self.end()
            self.emit("")
            self.cms.append(cname)
        for j in range(2):
            cname = "Pr%d" % j
            self.emit("cdef class %s:" % cname)
            self.emit("    cdef public int v")
            self.emit("    cdef public object o")
            self.emit("    cdef readonly double d")
            self.begin("__init__")
            self.emit("    def __init__(self):")
            self.emit("        self.v = %d" % j)
            self.emit("        self.o = Tracked(%d)" % (80 + j))
            self.emit("        self.d = 0.5")
            self.end()
            self.begin("val")
            self.emit("    @property")
            self.emit("    def val(self):")
            self.emit("        " + self.p())
            self.emit("        return Tracked(self.v)")
            self.end()
            self.begin("cpm")
            self.emit("    cpdef object cpm(self, int a):")
            for l in self.cbody("        ", "cp", 1):
                self.emit(l)
            self.emit("        return (self.v, a)")
            self.end()
            self.begin("cm")
            self.emit("    cdef int cm(self, int a) except -1:")
            self.emit("        " + self.p())
            # 'except -1' (without '?') promises that -1 is never returned without an exception: keep the result non-negative
            # (a caller passes values that c_exq*() legitimately returned, including -1)
            self.emit("        return (a + self.v) & 0xffff")
            self.end()
            self.emit("")
            self.props.append(cname)
        # a Python subclass overriding the cpdef method (dispatch goes through the override check inside the traced code)
        self.emit("class PySub(Pr0):")
        self.begin("cpm")
        self.emit("    def cpm(self, a):")
        self.emit("        " + self.p())
        self.emit("        return ('py', a)")
        self.end()
        self.emit("")

    # -- drivers
    def leaf(self, ind):
        r = self.rng
        c = self.cfuncs
        q = r.randrange(26)
        if q == 24:
            return ["%so = c_pre0(a)" % ind]
        if q == 25:
            return ["%so = d_pre0(a)" % ind]
        if q == 22:
            # typed memoryview acquisition from a PEP-688 exporter whose __buffer__ is a fallible call
            self.pk += 1
            return ["%smv = Buf(%d)" % (ind, self.pk), "%sn += mv[0] + mv.shape[0]" % ind]
        if q == 23:
            self.pk += 1
            return ["%smv = Buf(%d)" % (ind, self.pk), "%smv2 = mv[1:]" % ind, "%sn += mv2[0]" % ind, "%smv = None" % ind]
        if q == 20:
            return ["%sn = c_ngr0(a)" % ind]
        if q == 21:
            # a cpdef function entered through its Python wrapper (looked up on the module object)
            return ["%so = sys.modules[__name__].%s(a)" % (ind, r.choice(c["cp"]))]
        if q == 0:
            return [ind + self.p()]
        if q == 1:
            return ["%sn = %s(a)" % (ind, r.choice(c["ne"]))]
        if q == 2:
            return ["%sn += %s(a)" % (ind, r.choice(c["ex"]))]
        if q == 3:
            return ["%sn = %s(n)" % (ind, r.choice(c["exq"]))]
        if q == 4:
            return ["%so = %s(o)" % (ind, r.choice(c["obj"]))]
        if q == 5:
            return ["%s%s(a)" % (ind, r.choice(c["void"]))]
        if q == 6:
            return ["%sx = %s(a)" % (ind, r.choice(c["dbl"]))]
        if q == 7:
            return ["%so = %s(a)" % (ind, r.choice(c["cp"]))]
        if q == 8:
            return ["%sfor o in %s(%d):" % (ind, r.choice(self.its), r.randint(0, 2)), "%s    %s" % (ind, self.p())]
        if q == 9:
            return ["%so = [w for w in %s(%d)]" % (ind, r.choice(self.its), r.randint(1, 2))]
        if q == 10:
            return ["%swith %s(%s) as o:" % (ind, r.choice(self.cms), r.random() < 0.3), "%s    %s" % (ind, self.p())]
        if q == 11:
            return ["%so = pr.val" % ind]
        if q == 12:
            return ["%spr.v = %s or 3" % (ind, self.p())]         # typed attribute: conversion fails when the probe returns a non-int
        if q == 13:
            return ["%sn = %s or 4" % (ind, self.p())]            # typed local
        if q == 14:
            return ["%so = pr.cpm(a)" % ind]                       # cpdef through a typed reference
        if q == 15:
            return ["%so = (<object>ps).cpm(a)" % ind]             # cpdef through Python attribute lookup, Python override
        if q == 16:
            return ["%sn = pr.cm(n)" % ind]
        if q == 17:
            return ["%swith nogil:" % ind, "%s    n = %s(n)" % (ind, r.choice(c["ng"]))]
        if q == 18:
            return ["%sx = %s or 1.5" % (ind, self.p())]          # typed double local
        return ["%so = ps.cpm(a)" % ind]                           # C-level call that must reach the Python override

    def dblock(self, depth, ind, in_loop=False, in_finally=False, in_handler=False, guarded=False, noret=False):
        """noret: quarantine F26 (no 'return' inside a try-with-finally that is lexically inside an except handler)"""
        r = self.rng
        out = []
        for _ in range(r.randint(1, 3)):
            q = r.random()
            if q < 0.45:
                out += self.leaf(ind)
            elif q < 0.70 and depth > 0:
                out += self.dtry(depth - 1, ind, in_loop, in_finally, in_handler, noret)
            elif q < 0.76 and depth > 0:
                out.append("%sfor k%d in range(%d):" % (ind, self.pk, r.randint(1, 2)))
                self.pk += 1
                out += self.dblock(depth - 1, ind + "    ", True, in_finally, in_handler, guarded, noret)
            elif q < 0.80 and in_loop and not in_finally:
                out.append("%sif a == %d: %s" % (ind, r.randint(0, 2), r.choice(["break", "continue"])))
            elif q < 0.86 and not in_finally:
                out.append("%sif a == %d: return (%d, n)" % (ind, r.randint(0, 2), self.pk))
                if guarded:
                    self._f19_hit = True
            elif q < 0.93:
                if in_handler and r.random() < 0.4:
                    out.append("%sif a == %d: raise" % (ind, r.randint(0, 2)))
                else:
                    out.append("%sif a == %d: raise %s(%d)" % (ind, r.randint(0, 2), r.choice(["E1", "E2", "E3"]), self.pk))
            else:
                out += self.leaf(ind)
        return out

    def dtry(self, depth, ind, in_loop, in_finally, in_handler, noret=False):
        r = self.rng
        has_finally = r.random() < 0.5
        noret = noret or (has_finally and in_handler)
        out = [ind + "try:"]
        out += self.dblock(depth, ind + "    ", in_loop, in_finally, in_handler, guarded=has_finally, noret=noret)
        if not has_finally or r.random() < 0.7:
            exc = r.choice(["E1", "E2", "(E1, E2)", "E3", "BaseException", "Exception", "KeyError", "StopIteration", "TypeError", "OverflowError"])
            if r.random() < 0.5:
                out.append("%sexcept %s as e:" % (ind, exc))
            else:
                out.append("%sexcept %s:" % (ind, exc))
            out.append("%s    %s" % (ind, self.x()))
            out += self.dblock(depth, ind + "    ", in_loop, in_finally, True, guarded=has_finally, noret=noret)
        if has_finally:
            out.append(ind + "finally:")
            out.append("%s    %s" % (ind, self.x()))
            out += self.dblock(depth, ind + "    ", in_loop, True, in_handler)
        return out

    def gen_driver(self, idx):
        name = "f%d" % idx
        self._f19_hit = False
        self.begin(name)
        self.emit("def %s(int a):" % name)
        self.emit("    cdef int n = 0")
        self.emit("    cdef double x = 0.0")
        self.emit("    cdef object o = None")
        self.emit("    cdef int[:] mv = None")
        self.emit("    cdef int[:] mv2 = None")
        self.emit("    cdef Pr0 pr = Pr0()")
        self.emit("    cdef Pr0 ps = PySub()")
        self.emit("    " + self.p())
        for l in self.dblock(self.rng.randint(2, 3), "    "):
            if "with " in l and l.strip().startswith("with "):
                pass
            self.emit(l)
        self.emit("    " + self.p())
        self.emit("    return ('end', %d, n, x, type(o).__name__)" % idx)
        self.end()
        self.emit("")
        self.emit("")
        # a return inside try...finally or inside a with block (driver level): known finding F19 applies
        body = self.lines[self._cur[1] - 1:]
        if _has_guarded_return(body):
            self.f19.add(name)


def _has_guarded_return(lines):
    """True if a 'return' occurs lexically inside a with block or inside a try statement that has a finally clause
    (body, handlers or else - not the finally clause itself)."""
    n = len(lines)
    ind = [len(l) - len(l.lstrip()) for l in lines]
    guards = []      # (indent, end_line_exclusive) regions that are guarded
    for i, l in enumerate(lines):
        s = l.strip()
        if s.startswith("with ") and s.endswith(":") and not s.startswith("with gil"):
            # ('with nogil' too: the return event of a 'return' inside it is dropped unless CYTHON_TRACE_NOGIL is set - same
            # root cause as F19, the event is emitted at the return statement instead of the function exit)
            j = i + 1
            while j < n and (not lines[j].strip() or ind[j] > ind[i]):
                j += 1
            guards.append((i + 1, j))
        elif s == "try:":
            j = i + 1
            fin = None
            while j < n:
                if lines[j].strip() and ind[j] < ind[i]:
                    break
                if lines[j].strip() and ind[j] == ind[i]:
                    t = lines[j].strip()
                    if t == "finally:":
                        fin = j
                        break
                    if not (t.startswith("except") or t == "else:"):
                        break
                j += 1
            if fin is not None:
                guards.append((i + 1, fin))
    for a, b in guards:
        for k in range(a, b):
            t = lines[k].strip()
            if t.startswith("return") or ": return" in t:
                return True
    return False


HEADER = "import sys\nfrom cython.parallel import prange\nfrom simseam import P, X, CM, E1, E2, E3, Inj, Tracked, Buf\n\n"


def gen_module(rng, nfuncs):
    g = PG(rng)
    for l in HEADER.split("\n")[:-1]:
        g.emit(l)
    g.gen_cfuncs()
    g.gen_classes()
    for k in range(nfuncs):
        g.gen_driver(k)
    # helpers with a return inside try/finally or with are hit by F19 as well
    src = "\n".join(g.lines) + "\n"
    meta = {"spans": {k: [list(x) for x in v] for k, v in g.spans.items()}, "f19": sorted(g.f19 | _helpers_with_guarded_return(g)),
            "f33": sorted(g.cfuncs["cp"])}      # cpdef functions that drivers also enter through their Python wrapper
    return src, meta


def _helpers_with_guarded_return(g):
    out = set()
    for name, spans in g.spans.items():
        if name.startswith("f") and name[1:].isdigit():
            continue
        for first, last in spans:
            if _has_guarded_return(g.lines[first - 1:last]):
                out.add(name)
    return out


# --------------------------------------------------------------------------
# running one (function, arg, plan)

_loaded = {}


def load(ms):
    if ms["name"] not in _loaded:
        for d in (SEAMDIR,) + ((os.path.dirname(ms["refnanny"]),) if ms.get("refnanny") else ()):
            if d not in sys.path:
                sys.path.insert(0, d)
        import simseam
        if ms.get("refnanny"):
            import refnanny  # noqa: F401
        _loaded[ms["name"]] = (build.load_ext(ms["name"], ms["so"]), simseam)
    return _loaded[ms["name"]]


class _Null:
    def write(self, s):
        return len(s)

    def flush(self):
        pass


_DEVNULL = _Null()


def run_case(mod, fi, arg, plan, sm):
    """-> dict(outcome, log, exc_info_after, nprobes).  Unraisable errors (noexcept functions) are logged, not printed."""
    sm.reset({int(k): v for k, v in plan.items()})
    fn = getattr(mod, "f%d" % fi)
    old_hook = sys.unraisablehook

    def hook(u):
        sm.LOG.append(("unraisable", type(u.exc_value).__name__ if u.exc_value is not None else None))
    sys.unraisablehook = hook
    old_err = sys.stderr
    sys.stderr = _DEVNULL        # noexcept nogil functions print the full traceback of an unraisable error themselves
    try:
        try:
            out = ("value", sm.norm(fn(arg)))
        except BaseException as e:
            out = ("raise", sm.describe_exc(e))
            e.__traceback__ = None
            del e
    finally:
        sys.unraisablehook = old_hook
        sys.stderr = old_err
    after = sys.exc_info()[1]
    res = {"outcome": out, "log": list(sm.LOG), "exc_info_after": sm.exc_chain(after), "nprobes": sm.COUNT[0]}
    return json.loads(json.dumps(res))


def plans_for(rng, nprobes, nsingle_cap, nmulti):
    plans = []
    singles = [(k, ["raise", e]) for k in range(nprobes) for e in EXC_CATALOGUE] + \
              [(k, ["ret", v]) for k in range(nprobes) for v in RET_VALUES]
    if len(singles) > nsingle_cap:
        singles = rng.sample(singles, nsingle_cap)
    for k, act in singles:
        plans.append({str(k): act})
    for _ in range(nmulti):
        pl = {}
        for _ in range(rng.choice([2, 2, 3])):
            pl[str(rng.randrange(0, nprobes + 2))] = rng.choice([["raise", rng.choice(EXC_CATALOGUE)], ["raise", rng.choice(EXC_CATALOGUE)],
                                                                 ["ret", rng.choice(RET_VALUES)]])
        plans.append(pl)
    return plans


def one_run(check, seed, i, cfg):
    """One run = one (module, driver function): fault-free pass per argument, then its plans, under the configured observer."""
    import gc
    import io
    mods = cfg["modules"]
    ms = mods[i % len(mods)]
    mod, sm = load(ms)
    fi = (i // len(mods)) % ms["nfuncs"]
    rng = core.rng_for(check + ":e11", seed, i)
    res = {"probes": {}, "faults": {}, "n": 0, "nontrivial_digests": [], "steps": 0}
    P = res["probes"]
    mode = cfg.get("observer")       # None | "trace" | "refs" | "record"
    obs_n = 0
    records = []
    for arg in (0, 1, 2):
        base = run_case(mod, fi, arg, {}, sm)
        plans = [{}] + plans_for(rng, base["nprobes"], cfg["single_cap"], cfg["nmulti"])
        for plan in plans:
            mon = None
            if mode == "trace":
                from . import tracemon
                obs_n += 1
                f19 = () if os.environ.get("SIMKIT_RAW_REPLAY") else ms["meta"]["f19"]
                mon = tracemon.make(("profile", "trace", "both", "decline")[obs_n % 4], ms["name"] + ".pyx", ms["meta"]["spans"], f19,
                                    () if os.environ.get("SIMKIT_RAW_REPLAY") else ms["meta"].get("f33", ()))
            cap = None
            if mode == "refs":
                gc.collect()
                live0 = sm.LIVE[0]
                cap = io.StringIO()
                old = sys.stdout
                sys.stdout = cap
            if mon is not None:
                mon.install()
            try:
                rs = run_case(mod, fi, arg, plan, sm)
            finally:
                if mon is not None:
                    problems = mon.finish()
                if cap is not None:
                    sys.stdout = old
            res["n"] += 1
            res["steps"] += rs["nprobes"]
            fired = [int(k) for k in plan if int(k) < rs["nprobes"]]
            for k in fired:
                act = plan[str(k)]
                key = "%s:%s" % (act[0], act[1] if act[0] == "raise" else type(act[1]).__name__)
                res["faults"][key] = res["faults"].get(key, 0) + 1
            if fired:
                res["nontrivial_digests"].append(core.digest([ms["name"], fi, arg, plan]))
            flat = json.dumps(rs["log"])
            if '"unraisable"' in flat:
                P["unraisable_reported_by_noexcept_function"] = P.get("unraisable_reported_by_noexcept_function", 0) + 1
            if rs["outcome"][0] == "raise" and rs["outcome"][1][0] in ("TypeError", "OverflowError"):
                P["typed_conversion_failed"] = P.get("typed_conversion_failed", 0) + 1
            if rs["outcome"][0] == "raise" and rs["outcome"][1][0] in ("ValueError", "BufferError"):
                P["buffer_acquisition_failed"] = P.get("buffer_acquisition_failed", 0) + 1
            if '"buf.release"' in flat:
                P["buffer_released"] = P.get("buffer_released", 0) + 1
            v = None
            if mon is not None:
                P["events_" + mon.mode] = P.get("events_" + mon.mode, 0) + mon.events
                P["line_events"] = P.get("line_events", 0) + mon.line_events
                if mon.known_f19:
                    P["known_F19_return_event_before_finally"] = P.get("known_F19_return_event_before_finally", 0) + 1
                if mon.known_f33:
                    P["known_F33_cpdef_entered_through_python_wrapper"] = P.get("known_F33_cpdef_entered_through_python_wrapper", 0) + 1
                if problems:
                    v = {"klass": "trace-events:" + problems[0]["what"], "detail": {"mode": mon.mode, "problems": problems}, "observer_mode": mon.mode}
                else:
                    if mon.mode == "decline":
                        P["scopes_declined_by_the_tracer"] = P.get("scopes_declined_by_the_tracer", 0) + mon.declined_calls
                    # an observer must not change what the program does
                    ru = run_case(mod, fi, arg, plan, sm)
                    if (ru["outcome"], ru["log"]) != (rs["outcome"], rs["log"]):
                        v = {"klass": "trace-events:tracing-changes-behaviour", "observer_mode": mon.mode,
                             "detail": {"mode": mon.mode, "traced": rs["outcome"], "untraced": ru["outcome"]}}
            if mode == "refs":
                sm.PLAN.clear()
                gc.collect()
                probs = []
                nanny = cap.getvalue()
                if nanny.strip():
                    probs.append({"what": "refnanny-report", "text": nanny[-400:]})
                if sm.LIVE[0] != live0:
                    probs.append({"what": "object-leak" if sm.LIVE[0] > live0 else "object-over-release", "live_delta": sm.LIVE[0] - live0})
                if rs["exc_info_after"] is not None:
                    probs.append({"what": "exception-state-left-behind", "exc_info": rs["exc_info_after"]})
                if probs:
                    v = {"klass": probs[0]["what"], "detail": probs}
            if mode == "record":
                records.append([arg, plan, core.digest([rs["outcome"], rs["log"], rs["exc_info_after"]]), rs["outcome"]])
            if v is not None and "violation" not in res:
                res["violation"] = dict(v, func=fi, arg=arg, plan=plan, module=ms["name"], src=ms["src"], meta=ms["meta"], family="E11")
    if mode == "record":
        res["records"] = records
    if i % 40 == 0:
        res["sample"] = {"module": ms["name"], "func": fi, "family": "typed .pyx", "plan_example": {"2": ["raise", "E1"], "5": ["ret", "s"]}}
    return res


def build_modules(seed, nmods, nfuncs, tag, cflags=(), directives=None, cplus=False, refnanny=None):
    specs, metas = [], []
    for m in range(nmods):
        rng = core.rng_for("E11-module", seed, m)
        src, meta = gen_module(rng, nfuncs)
        name = "wl11_%s_%d_%d" % (tag, seed, m)
        specs.append({"name": name, "src": src, "ext": ".pyx", "cflags": tuple(cflags), "directives": directives, "cplus": cplus})
        metas.append({"name": name, "src": src, "nfuncs": nfuncs, "meta": meta})
    sos = build.build_many(specs)
    out, errors = [], []
    for meta, so in zip(metas, sos):
        if isinstance(so, Exception):
            errors.append(str(so)[-1200:])
            continue
        meta["so"] = so
        if refnanny:
            meta["refnanny"] = refnanny
        out.append(meta)
    return out, errors


def explore(rep, prop, seed, tier, tag, observer, cflags=(), directives=None, cplus=False, budget=30, nmods=None, nfuncs=12, extra_cfg=None, refnanny=None):
    """-> (violations [(i, v)], modules, cfg, results).  Crashes are returned as violations of class 'crash'."""
    nmods = nmods or (3 if tier == "quick" else 8)
    mods, errors = build_modules(seed, nmods, nfuncs, tag, cflags, directives, cplus, refnanny)
    for e in errors:
        rep.probes["e11_workload_modules_not_built"] = rep.probes.get("e11_workload_modules_not_built", 0) + 1
        sys.stderr.write("E11 workload build failed (dropped): %s\n" % e[-600:])
    if not mods:
        rep.harness_errors.append("no E11 workload module could be built: %s" % (errors[:1],))
        return [], mods, {}, []
    cfg = {"modules": mods, "single_cap": 30 if tier == "quick" else 120, "nmulti": 20 if tier == "quick" else 80,
           "case_timeout_s": 120, "observer": observer}
    cfg.update(extra_cfg or {})
    deadline = time.time() + budget
    total = len(mods) * nfuncs
    viol, allres = [], []
    start = 0
    for rnd in range(1 if tier == "quick" else 10 ** 6):
        if time.time() > deadline:
            break
        results = core.run_forked(one_run, prop, seed, range(start, start + total), cfg, deadline=deadline)
        start += total
        for i, r in results:
            if "crash" in r:
                viol.append((i, {"klass": "crash", "detail": {"signal": r["crash"]}, "module": mods[i % len(mods)]["name"], "src": mods[i % len(mods)]["src"],
                                 "meta": mods[i % len(mods)]["meta"], "func": None, "arg": None, "plan": None, "family": "E11"}))
                continue
            if "harness_error" in r:
                rep.harness_errors.append(r["harness_error"])
                continue
            rep.absorb(r)
            allres.append((i, r))
            if "violation" in r:
                viol.append((i, r["violation"]))
        if viol:
            break
    return viol, mods, cfg, allres


def run_single(ms, fi, arg, plan, observer):
    """One case under one observer; returns the violation dict or None (used by replay / minimisation / crash recovery)."""
    cfg = {"modules": [ms], "single_cap": 0, "nmulti": 0, "observer": observer}
    mod, sm = load(ms)
    import gc
    import io
    if observer == "trace":
        from . import tracemon
        out = None
        for mode in ("profile", "trace", "both", "decline"):
            f19 = () if os.environ.get("SIMKIT_RAW_REPLAY") else ms["meta"]["f19"]
            mon = tracemon.make(mode, ms["name"] + ".pyx", ms["meta"]["spans"], f19, () if os.environ.get("SIMKIT_RAW_REPLAY") else ms["meta"].get("f33", ()))
            mon.install()
            try:
                rs = run_case(mod, fi, arg, plan, sm)
            finally:
                problems = mon.finish()
            if problems:
                out = {"klass": "trace-events:" + problems[0]["what"], "detail": {"mode": mode, "problems": problems}}
                break
            ru = run_case(mod, fi, arg, plan, sm)
            if (ru["outcome"], ru["log"]) != (rs["outcome"], rs["log"]):
                out = {"klass": "trace-events:tracing-changes-behaviour", "detail": {"mode": mode, "traced": rs["outcome"], "untraced": ru["outcome"]}}
                break
        return out
    if observer == "refs":
        gc.collect()
        live0 = sm.LIVE[0]
        cap = io.StringIO()
        old = sys.stdout
        sys.stdout = cap
        try:
            rs = run_case(mod, fi, arg, plan, sm)
        finally:
            sys.stdout = old
        sm.PLAN.clear()
        gc.collect()
        probs = []
        if cap.getvalue().strip():
            probs.append({"what": "refnanny-report", "text": cap.getvalue()[-400:]})
        if sm.LIVE[0] != live0:
            probs.append({"what": "object-leak" if sm.LIVE[0] > live0 else "object-over-release", "live_delta": sm.LIVE[0] - live0})
        if rs["exc_info_after"] is not None:
            probs.append({"what": "exception-state-left-behind", "exc_info": rs["exc_info_after"]})
        return {"klass": probs[0]["what"], "detail": probs} if probs else None
    rs = run_case(mod, fi, arg, plan, sm)
    return {"digest": core.digest([rs["outcome"], rs["log"], rs["exc_info_after"]]), "outcome": rs["outcome"], "log_tail": rs["log"][-6:]}


def recover_crash(seed, i, cfg, mods, prop, observer):
    ms = mods[i % len(mods)]
    fi = (i // len(mods)) % ms["nfuncs"]
    rng = core.rng_for(prop + ":e11", seed, i)
    for arg in (0, 1, 2):
        st, r = core.run_one_forked(_nprobes, ms, fi, arg, timeout=30)
        if st != "ok":
            return fi, arg, {}
        for plan in [{}] + plans_for(rng, r, cfg["single_cap"], cfg["nmulti"]):
            st2, r2 = core.run_one_forked(run_single, ms, fi, arg, plan, observer, timeout=30)
            if st2 == "crash":
                return fi, arg, plan
    return None


def _nprobes(ms, fi, arg):
    mod, sm = load(ms)
    return run_case(mod, fi, arg, {}, sm)["nprobes"]


def minimise_plan(v, ms, observer):
    def fails(pl):
        st, r = core.run_one_forked(run_single, ms, v["func"], v["arg"], pl, observer, timeout=30)
        return st == "crash" or (st == "ok" and r is not None and "klass" in r)
    items = sorted(v["plan"].items())
    if len(items) > 1:
        items = core.ddmin(items, lambda it: fails(dict(it)), max_tests=16)
    return dict(v, plan=dict(items))


def replay(payload, observer, cflags=(), directives=None, cplus=False, refnanny=None):
    """Rebuild the module of a replay file and run its case under the observer; True iff it still fails."""
    core.stage()
    name = "wit11_" + core.digest([payload["src"], list(cflags), directives, cplus])[:10]
    so = build.build_ext(name, payload["src"], ".pyx", cflags=tuple(cflags), directives=directives, cplus=cplus)
    ms = {"name": name, "src": payload["src"], "so": so, "nfuncs": 99, "meta": payload["meta"]}
    if refnanny:
        ms["refnanny"] = refnanny
    if payload.get("raw"):
        os.environ["SIMKIT_RAW_REPLAY"] = "1"
    try:
        st, r = core.run_one_forked(run_single, ms, payload["func"], payload["arg"], payload["plan"], observer, timeout=60)
    finally:
        os.environ.pop("SIMKIT_RAW_REPLAY", None)
    print("replayed (E11, %s): %s %s" % (observer, st, json.dumps(r)[:500] if r is not None else None))
    return st == "crash" or (st == "ok" and r is not None and "klass" in r)
