"""simkit core: staging, seeds, batch runner with worker isolation, digests,
replay files, ddmin, known findings, evidence.

Everything a check decides is derived from VERIF_SEED; nothing here reads a
wall clock except to report wall_s / enforce budgets (never to make choices).
"""
import hashlib
import json
import os
import random
import shutil
import signal
import subprocess
import sys
import tempfile
import time
import traceback
from concurrent.futures import ProcessPoolExecutor, as_completed
import multiprocessing

VERIF = os.path.dirname(os.path.dirname(os.path.abspath(__file__)))
REPO = os.environ.get("VERIF_REPO", "/repo")
PY = sys.executable

EXIT_OK, EXIT_VIOLATION, EXIT_HARNESS = 0, 1, 2


class HarnessError(Exception):
    pass


# --------------------------------------------------------------------------
# configuration from environment

def env_seed():
    try:
        return int(os.environ.get("VERIF_SEED", "0"))
    except ValueError:
        return 0


def env_jobs():
    try:
        return max(1, int(os.environ.get("VERIF_JOBS", "0")) or (os.cpu_count() or 4))
    except ValueError:
        return os.cpu_count() or 4


def env_budget(default):
    try:
        return float(os.environ.get("VERIF_BUDGET_S", default))
    except ValueError:
        return float(default)


# --------------------------------------------------------------------------
# work directory and staging

_WORK = None
_WORK_OWNED = False


def workdir():
    """Scratch root outside /repo and /verif; removed on exit if we made it."""
    global _WORK, _WORK_OWNED
    if _WORK is None:
        w = os.environ.get("VERIF_WORK")
        if w:
            os.makedirs(w, exist_ok=True)
            _WORK = w
        else:
            _WORK = tempfile.mkdtemp(prefix="simkit-")
            _WORK_OWNED = True
            os.environ["VERIF_WORK"] = _WORK  # children share it
            import atexit
            pid = os.getpid()

            def _rm():
                if os.getpid() == pid:
                    shutil.rmtree(_WORK, ignore_errors=True)
            atexit.register(_rm)
    return _WORK


def _git_files():
    out = subprocess.run(
        ["git", "-C", REPO, "ls-files", "-co", "--exclude-standard", "--",
         "Cython", "cython.py", "pyximport"],
        capture_output=True, text=True, check=True).stdout
    files = [f for f in out.splitlines() if f and not f.endswith((".so", ".pyc"))]
    files = [f for f in files if os.path.isfile(os.path.join(REPO, f))]
    return sorted(files)


_STAGE = None


def stage():
    """Copy the working tree's compiler sources (no self-compiled .so, which
    would shadow edited .py) into the work dir; returns (path, treehash)."""
    global _STAGE
    if _STAGE is not None:
        return _STAGE
    pre = os.environ.get("VERIF_STAGE")
    if pre and os.path.isdir(pre):
        _STAGE = (pre, os.path.basename(pre).split("-", 1)[-1])
        return _STAGE
    try:
        files = _git_files()
    except Exception as e:  # not a git checkout: fall back to a walk
        files = []
        for top in ("Cython", "pyximport"):
            for d, dn, fn in os.walk(os.path.join(REPO, top)):
                dn[:] = [x for x in dn if x != "__pycache__"]
                for f in fn:
                    p = os.path.relpath(os.path.join(d, f), REPO)
                    if f.endswith((".so", ".pyc")):
                        continue
                    if f.endswith(".c") and os.path.exists(os.path.join(d, f[:-2] + ".py")):
                        continue
                    files.append(p)
        files.append("cython.py")
        files.sort()
    h = hashlib.sha256()
    blobs = []
    for f in files:
        with open(os.path.join(REPO, f), "rb") as fh:
            b = fh.read()
        h.update(f.encode() + b"\0" + hashlib.sha256(b).digest())
        blobs.append((f, b))
    th = h.hexdigest()[:16]
    dst = os.path.join(workdir(), "stage-" + th)
    if not os.path.isdir(dst):
        tmp = dst + ".tmp%d" % os.getpid()
        for f, b in blobs:
            p = os.path.join(tmp, f)
            os.makedirs(os.path.dirname(p), exist_ok=True)
            with open(p, "wb") as fh:
                fh.write(b)
        try:
            os.rename(tmp, dst)
        except OSError:
            shutil.rmtree(tmp, ignore_errors=True)
    os.environ["VERIF_STAGE"] = dst
    _STAGE = (dst, th)
    return _STAGE


def use_stage():
    """Put the staged compiler first on sys.path (call before importing Cython)."""
    path, th = stage()
    for m in list(sys.modules):
        if m == "Cython" or m.startswith("Cython.") or m == "cython":
            mod = sys.modules[m]
            f = getattr(mod, "__file__", "") or ""
            if not f.startswith(path):
                del sys.modules[m]
    if path in sys.path:
        sys.path.remove(path)
    sys.path.insert(0, path)
    return path


def child_env(extra=None):
    path, th = stage()
    env = dict(os.environ)
    env["PYTHONPATH"] = path + os.pathsep + VERIF
    env.setdefault("PYTHONHASHSEED", "0")
    env["PYTHONDONTWRITEBYTECODE"] = "1"
    if extra:
        env.update(extra)
    return env


# --------------------------------------------------------------------------
# seeds

def run_seed(check, seed, i):
    h = hashlib.sha256(("%s:%d:%d" % (check, seed, i)).encode()).digest()
    return int.from_bytes(h[:8], "big")


def rng_for(check, seed, i):
    return random.Random(run_seed(check, seed, i))


def digest(obj):
    return hashlib.sha256(json.dumps(obj, sort_keys=True, default=repr).encode()).hexdigest()


# --------------------------------------------------------------------------
# batch runner (in-process pure-Python engines): fork workers, merge in order

class CaseTimeout(BaseException):
    pass


def _alarm(signum, frame):
    raise CaseTimeout()


def _worker_chunk(fn, check, seed, idxs, cfg):
    import faulthandler
    faulthandler.enable()
    limit = (cfg or {}).get("case_timeout_s", 30) if isinstance(cfg, dict) else 30
    signal.signal(signal.SIGALRM, _alarm)
    out = []
    for i in idxs:
        try:
            signal.setitimer(signal.ITIMER_REAL, limit)
            try:
                r = fn(check, seed, i, cfg)
            finally:
                signal.setitimer(signal.ITIMER_REAL, 0)
            out.append((i, r))
        except CaseTimeout:
            out.append((i, {"harness_error": "case %s:%d:%d exceeded %ss (watchdog)" % (check, seed, i, limit),
                            "timeout": True}))
        except Exception:
            out.append((i, {"harness_error": traceback.format_exc()}))
    return out


def run_batch(fn, check, seed, indices, cfg=None, jobs=None, chunk=None, deadline=None):
    """Run fn(check, seed, i, cfg) -> result dict for each i, in forked workers.
    Results are returned sorted by i, so outcome is independent of worker count."""
    jobs = jobs or env_jobs()
    indices = list(indices)
    if not indices:
        return []
    if chunk is None:
        chunk = max(1, min(200, len(indices) // (jobs * 4) or 1))
    chunks = [indices[k:k + chunk] for k in range(0, len(indices), chunk)]
    results = []
    if jobs == 1:
        for c in chunks:
            results.extend(_worker_chunk(fn, check, seed, c, cfg))
            if deadline and time.time() > deadline:
                break
        results.sort(key=lambda t: t[0])
        return results
    ctx = multiprocessing.get_context("fork")
    with ProcessPoolExecutor(max_workers=jobs, mp_context=ctx) as ex:
        futs = {}
        it = iter(chunks)
        pending = set()
        # bounded submission so a deadline can stop early
        def submit_more():
            while len(pending) < jobs * 2:
                c = next(it, None)
                if c is None:
                    return
                f = ex.submit(_worker_chunk, fn, check, seed, c, cfg)
                futs[f] = c
                pending.add(f)
        submit_more()
        while pending:
            done = next(as_completed(list(pending)))
            pending.discard(done)
            try:
                results.extend(done.result())
            except Exception as e:
                for i in futs[done]:
                    results.append((i, {"harness_error": "worker died: %r" % (e,)}))
                # pool is broken after a worker death
                break
            if deadline is None or time.time() < deadline:
                submit_more()
    results.sort(key=lambda t: t[0])
    return results


# --------------------------------------------------------------------------
# ddmin

def ddmin(items, test, max_tests=400):
    """Delta-debugging minimisation of a list; test(list)->True if still fails."""
    items = list(items)
    n = 2
    tests = 0
    while len(items) >= 2 and tests < max_tests:
        size = max(1, len(items) // n)
        subsets = [items[i:i + size] for i in range(0, len(items), size)]
        reduced = False
        for k in range(len(subsets)):
            comp = [x for j, s in enumerate(subsets) if j != k for x in s]
            tests += 1
            if comp and test(comp):
                items = comp
                n = max(n - 1, 2)
                reduced = True
                break
            if tests >= max_tests:
                break
        if not reduced:
            if n >= len(items):
                break
            n = min(len(items), n * 2)
    # final single-element removal pass
    i = 0
    while i < len(items) and tests < max_tests and len(items) > 1:
        cand = items[:i] + items[i + 1:]
        tests += 1
        if test(cand):
            items = cand
        else:
            i += 1
    return items


# --------------------------------------------------------------------------
# replay files / known findings

def write_replay(prop, engine, payload):
    d = os.path.join(VERIF, "replays")
    os.makedirs(d, exist_ok=True)
    payload = dict(payload)
    payload["property"] = prop
    payload["engine"] = engine
    dg = digest(payload)[:12]
    p = os.path.join(d, "%s-%s.json" % (prop, dg))
    with open(p, "w") as f:
        json.dump(payload, f, indent=1, sort_keys=True, default=repr)
    return p


def load_known():
    p = os.path.join(VERIF, "known_findings.json")
    if not os.path.exists(p):
        return []
    with open(p) as f:
        return json.load(f).get("findings", [])


def known_for(prop, status=None):
    return [k for k in load_known() if prop in k.get("properties", [k.get("property")])
            and (status is None or k.get("status") == status)]


# --------------------------------------------------------------------------
# evidence

def _validate_evidence(ev):
    cov = ev["coverage"]
    assert isinstance(ev["seed"], int)
    assert ev["tier"] in ("quick", "thorough")
    assert isinstance(cov.get("evaluations"), int) and cov["evaluations"] >= 1, "evaluations"
    assert isinstance(cov.get("distinct_nontrivial"), int) and cov["distinct_nontrivial"] >= 2, "distinct_nontrivial"
    assert isinstance(cov.get("rule"), str)
    assert isinstance(cov.get("samples"), list) and len(cov["samples"]) >= 1, "samples"


def write_evidence(prop, tier, seed, level, coverage, wall_s, violations, assumptions=None):
    ev = {
        "property_id": prop,
        "tier": tier,
        "seed": int(seed),
        "level": level,
        "coverage": coverage,
        "assumptions": assumptions or [],
        "wall_s": round(float(wall_s), 3),
        "violations": int(violations),
    }
    _validate_evidence(ev)
    d = os.path.join(VERIF, "evidence")
    os.makedirs(d, exist_ok=True)
    p = os.path.join(d, "%s.json" % prop)
    tmp = p + ".tmp"
    with open(tmp, "w") as f:
        json.dump(ev, f, indent=1, sort_keys=True, default=repr)
    os.replace(tmp, p)
    return p


def replay_known(prop, replay_fn, rep):
    """Replay every listed finding of this property from its witness.
    known + still failing -> KNOWN-FINDING line; fixed + failing -> VIOLATION (a fixed entry suppresses nothing)."""
    for k in known_for(prop):
        wp = os.path.join(VERIF, k["witness"])
        with open(wp) as f:
            payload = json.load(f)
        try:
            import io, contextlib
            buf = io.StringIO()
            with contextlib.redirect_stdout(buf):
                failing = bool(replay_fn(payload))
        except Exception:
            rep.harness_errors.append("witness %s: %s" % (k["id"], traceback.format_exc()))
            continue
        rep.evaluations += 1
        rep.probes["witness_replays"] = rep.probes.get("witness_replays", 0) + 1
        if failing and k.get("status") == "known":
            rep.known_seen.append("%s %s" % (k["id"], k["summary"]))
        elif failing:
            rep.violations.append(("regression of fixed finding %s: %s" % (k["id"], k["summary"]), wp))


class Report:
    """Collects what a check did and turns it into exit code + evidence."""

    def __init__(self, prop, engine, tier, seed, level="exploration"):
        self.prop, self.engine, self.tier, self.seed, self.level = prop, engine, tier, seed, level
        self.t0 = time.time()
        self.evaluations = 0
        self.nontrivial_digests = set()
        self.all_digests = set()
        self.samples = []
        self.fault_counts = {}
        self.probes = {}
        self.violations = []   # (summary, replay_path)
        self.known_seen = []
        self.harness_errors = []
        self.extra = {}
        self.sim_steps = 0
        self.rule = ""
        self.components = {}
        self.quarantined = []
        self.assumptions = []
        self.determinism = {"seeds": 0, "mismatches": 0}

    def add_counts(self, into, d):
        for k, v in (d or {}).items():
            into[k] = into.get(k, 0) + v

    def absorb(self, res):
        """res: dict from one run: digest, nontrivial(bool), faults{}, probes{}, steps"""
        self.evaluations += res.get("n", 1)
        if res.get("digest"):
            self.all_digests.add(res["digest"])
            if res.get("nontrivial"):
                self.nontrivial_digests.add(res["digest"])
        for dg in res.get("nontrivial_digests", ()):
            self.nontrivial_digests.add(dg)
            self.all_digests.add(dg)
        self.add_counts(self.fault_counts, res.get("faults"))
        self.add_counts(self.probes, res.get("probes"))
        self.sim_steps += res.get("steps", 0)
        if res.get("sample") is not None and len(self.samples) < 3:
            self.samples.append(res["sample"])

    def violation(self, summary, replay_payload):
        p = write_replay(self.prop, self.engine, replay_payload)
        self.violations.append((summary, p))
        return p

    def finish(self):
        wall = time.time() - self.t0
        for k in self.known_seen:
            print("KNOWN-FINDING: property=%s %s" % (self.prop, k))
        if not self.samples and self.evaluations:
            self.samples.append({"note": "no sample captured: the runs designated for sampling crashed or were dropped"})
        cov = {
            "evaluations": self.evaluations,
            "distinct_nontrivial": len(self.nontrivial_digests),
            "distinct_digests": len(self.all_digests),
            "rule": self.rule,
            "samples": self.samples,
            "runs_per_hour": int(self.evaluations / wall * 3600) if wall > 0 else 0,
            "sim_steps": self.sim_steps,
            "fault_counts": self.fault_counts,
            "probes": self.probes,
            "components": self.components,
            "quarantined_patterns": self.quarantined,
            "known_findings_seen": self.known_seen,
            "determinism_selfcheck": self.determinism,
            "harness_errors": len(self.harness_errors),
        }
        cov.update(self.extra)
        code = EXIT_OK
        if self.harness_errors:
            for h in self.harness_errors[:5]:
                print("HARNESS-ERROR property=%s %s" % (self.prop, str(h).strip().splitlines()[-1] if str(h).strip() else h))
                sys.stderr.write(str(h) + "\n")
            code = EXIT_HARNESS
        if self.violations:
            for s, p in self.violations[:10]:
                print("VIOLATION property=%s replay=%s  # %s" % (self.prop, p, s))
            code = EXIT_VIOLATION
        try:
            write_evidence(self.prop, self.tier, self.seed, self.level, cov, wall,
                           len(self.violations), self.assumptions)
        except AssertionError as e:
            print("HARNESS-ERROR property=%s evidence invalid: %s" % (self.prop, e))
            if code == EXIT_OK:
                code = EXIT_HARNESS
        print("%s %s tier=%s seed=%d runs=%d distinct_nontrivial=%d violations=%d wall=%.1fs" % (
            "OK" if code == 0 else "FAIL", self.prop, self.tier, self.seed, self.evaluations,
            len(self.nontrivial_digests), len(self.violations), wall))
        return code


# --------------------------------------------------------------------------
# crash-isolating runner for compiled workloads: own fork pool with journaling.
# A worker writes "S <i>" before a case and "R <i> <json>" after it; if it dies
# in between, the parent knows which case killed it and restarts the slice.

def run_forked(fn, check, seed, indices, cfg=None, jobs=None, deadline=None, setup=None):
    import select
    jobs = jobs or env_jobs()
    indices = list(indices)
    slices = [indices[k::jobs] for k in range(jobs)]
    slices = [s for s in slices if s]
    results = {}
    limit = (cfg or {}).get("case_timeout_s", 30) if isinstance(cfg, dict) else 30

    def spawn(todo):
        r, w = os.pipe()
        pid = os.fork()
        if pid == 0:
            os.close(r)
            code = 0
            try:
                import faulthandler
                faulthandler.enable()
                out = os.fdopen(w, "w")
                signal.signal(signal.SIGALRM, _alarm)
                if setup:
                    setup()
                for i in todo:
                    out.write("S %d\n" % i)
                    out.flush()
                    try:
                        signal.setitimer(signal.ITIMER_REAL, limit)
                        try:
                            res = fn(check, seed, i, cfg)
                        finally:
                            signal.setitimer(signal.ITIMER_REAL, 0)
                    except CaseTimeout:
                        res = {"harness_error": "case %s:%d:%d exceeded %ss (watchdog)" % (check, seed, i, limit), "timeout": True}
                    except Exception:
                        res = {"harness_error": traceback.format_exc()}
                    out.write("R %d %s\n" % (i, json.dumps(res, default=repr)))
                    out.flush()
                    if deadline and time.time() > deadline:
                        break
            except BaseException:
                code = 3
            finally:
                os._exit(code)
        os.close(w)
        return {"pid": pid, "fd": r, "buf": b"", "todo": list(todo), "cur": None, "since": time.time(), "hung": False}

    workers = [spawn(s) for s in slices]
    while workers:
        rl, _, _ = select.select([wk["fd"] for wk in workers], [], [], 5.0)
        now = time.time()
        for wk in workers:
            # a case stuck in C code cannot be interrupted by the in-process watchdog: kill the worker
            if not wk["hung"] and now - wk["since"] > limit + 20:
                wk["hung"] = True
                try:
                    os.kill(wk["pid"], signal.SIGKILL)
                except OSError:
                    pass
        for wk in list(workers):
            if wk["fd"] not in rl:
                continue
            data = os.read(wk["fd"], 1 << 16)
            if data:
                wk["buf"] += data
                while b"\n" in wk["buf"]:
                    line, wk["buf"] = wk["buf"].split(b"\n", 1)
                    line = line.decode()
                    if line.startswith("S "):
                        wk["cur"] = int(line[2:])
                        wk["since"] = time.time()
                    elif line.startswith("R "):
                        _, i, js = line.split(" ", 2)
                        results[int(i)] = json.loads(js)
                        wk["todo"].remove(int(i))
                        wk["cur"] = None
                        wk["since"] = time.time()
                continue
            # EOF: worker finished or died
            os.close(wk["fd"])
            _, status = os.waitpid(wk["pid"], 0)
            workers.remove(wk)
            if wk["cur"] is not None:
                sig = os.WTERMSIG(status) if os.WIFSIGNALED(status) else None
                results[wk["cur"]] = {"crash": ("hang (killed after %ds)" % (limit + 20)) if wk["hung"] else (sig if sig is not None else "exit %s" % os.WEXITSTATUS(status))}
                wk["todo"].remove(wk["cur"])
                if wk["todo"] and not (deadline and time.time() > deadline):
                    workers.append(spawn(wk["todo"]))
    return sorted(results.items())


def run_one_forked(fn, *args, timeout=120):
    """Run fn(*args) in a forked child; returns ('ok', result) | ('crash', signal) | ('timeout', None)."""
    r, w = os.pipe()
    pid = os.fork()
    if pid == 0:
        os.close(r)
        try:
            res = fn(*args)
            with os.fdopen(w, "w") as f:
                f.write(json.dumps(res, default=repr))
            os._exit(0)
        except BaseException:
            try:
                with os.fdopen(w, "w") as f:
                    f.write(json.dumps({"harness_error": traceback.format_exc()}))
            except Exception:
                pass
            os._exit(0)
    os.close(w)
    t0 = time.time()
    data = b""
    import select
    while True:
        rl, _, _ = select.select([r], [], [], 1.0)
        if rl:
            chunk = os.read(r, 1 << 16)
            if not chunk:
                break
            data += chunk
        elif time.time() - t0 > timeout:
            os.kill(pid, signal.SIGKILL)
            os.waitpid(pid, 0)
            os.close(r)
            return ("timeout", None)
    os.close(r)
    _, status = os.waitpid(pid, 0)
    if os.WIFSIGNALED(status):
        return ("crash", os.WTERMSIG(status))
    try:
        return ("ok", json.loads(data.decode()))
    except ValueError:
        return ("crash", "no result (exit %s)" % os.WEXITSTATUS(status))
