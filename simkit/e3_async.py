"""E3b asyncio sub-engine — C23 under a real event loop in virtual time.

Compiled coroutines and async generators are run by the real asyncio Task
machinery on a virtual-time loop (simasync.VirtualLoop).  A scenario is a
generated module (root coroutine + children + async generators: awaits on
sleeps, wait_for / asyncio.timeout, gather, shield, child tasks, async with,
async for, try/except CancelledError/finally with awaits inside) plus a seeded
schedule of external actions in virtual time (cancel the root task at t,
twice, with a message) plus a fault plan for the probes (raise / self-cancel at
the k-th probe).  Oracle: the event log stamped with virtual times and the final
outcome of the root task equal those of CPython running the same source under
the same loop, schedule and plan.
"""
import asyncio
import gc
import json
import os
import sys
import time
import types
import warnings

from . import core, build

PROP = "C23"
SEAMDIR = os.path.dirname(os.path.abspath(__file__))

DELAYS = ["0", "0.1", "0.25", "0.5", "1"]
TIMEOUTS = ["0.05", "0.2", "0.3", "0.75", "2"]


class AG:
    def __init__(self, rng):
        self.rng = rng
        self.pk = 0
        self.nchild = 0
        self.nagen = 0

    def p(self):
        self.pk += 1
        return "AP(%d)" % self.pk

    def x(self):
        self.pk += 1
        return "AX(%d)" % self.pk

    def d(self):
        return self.rng.choice(DELAYS)

    def child(self):
        return "c%d()" % self.rng.randrange(self.nchild) if self.nchild else "asyncio.sleep(%s)" % self.d()

    def awaitable(self, depth):
        r = self.rng.random()
        if r < 0.40 or depth <= 0:
            return "asyncio.sleep(%s)" % self.d()
        if r < 0.65:
            return self.child()
        if r < 0.75:
            return "asyncio.wait_for(%s, %s)" % (self.child(), self.rng.choice(TIMEOUTS))
        if r < 0.85:
            return "asyncio.gather(%s, %s, return_exceptions=%s)" % (self.child(), self.child(), self.rng.random() < 0.5)
        if r < 0.92:
            return "asyncio.shield(%s)" % self.child()
        return "asyncio.ensure_future(%s)" % self.child()

    def block(self, depth, ind, in_agen=False):
        r = self.rng
        out = []
        for _ in range(r.randint(1, 3)):
            q = r.random()
            if q < 0.22:
                out.append(ind + self.p())
            elif q < 0.47:
                out.append("%sv = await %s" % (ind, self.awaitable(depth)))
            elif q < 0.60 and depth > 0:
                out.append(ind + "try:")
                out += self.block(depth - 1, ind + "    ", in_agen)
                h = r.random()
                exc = r.choice(["asyncio.CancelledError", "asyncio.CancelledError", "asyncio.TimeoutError", "E1", "Exception", "BaseException"])
                out.append("%sexcept %s:" % (ind, exc))
                out.append("%s    %s" % (ind, self.x()))
                if h < 0.35:
                    out.append("%s    raise" % ind)
                elif h < 0.6:
                    out.append("%s    await asyncio.sleep(%s)" % (ind, self.d()))      # awaits while handling a cancellation
                elif h < 0.75:
                    out.append("%s    await asyncio.sleep(%s)" % (ind, self.d()))
                    out.append("%s    raise" % ind)
            elif q < 0.72 and depth > 0:
                out.append(ind + "try:")
                out += self.block(depth - 1, ind + "    ", in_agen)
                out.append(ind + "finally:")
                out.append("%s    %s" % (ind, self.p()))
                if r.random() < 0.5:
                    out.append("%s    await asyncio.sleep(%s)" % (ind, self.d()))      # await in finally (during cancellation too)
                    out.append("%s    %s" % (ind, self.p()))
            elif q < 0.80 and depth > 0:
                out.append("%sasync with ACM(%d, %s, %s):" % (ind, self.pk + 300, self.d(), r.random() < 0.2))
                out += self.block(depth - 1, ind + "    ", in_agen)
            elif q < 0.87 and depth > 0 and self.nagen and not in_agen:
                out.append("%sasync for w in ag%d(%d):" % (ind, r.randrange(self.nagen), r.randint(1, 3)))
                out.append("%s    %s" % (ind, self.p()))
                if r.random() < 0.3:
                    out.append("%s    if w == 1: break" % ind)
            elif q < 0.93 and depth > 0:
                out.append(ind + "try:")
                out.append("%s    async with asyncio.timeout(%s):" % (ind, r.choice(TIMEOUTS)))
                out += self.block(depth - 1, ind + "        ", in_agen)
                out.append(ind + "except asyncio.TimeoutError:")
                out.append("%s    %s" % (ind, self.x()))
            elif q < 0.96:
                out.append("%sif a == %d: raise E1(%d)" % (ind, r.randint(0, 1), self.pk))
            else:
                out.append(ind + self.p())
        return out

    def module(self):
        r = self.rng
        L = ["import asyncio", "from simasync import AP, AX, ACM, E1, E2", ""]
        nag = r.randint(1, 2)
        for j in range(nag):
            L.append("async def ag%d(n):" % j)
            L.append("    a = 0")
            L.append("    try:")
            L.append("        for i in range(n):")
            L.append("            " + self.p())
            L.append("            await asyncio.sleep(%s)" % self.d())
            L.append("            yield i")
            L.append("    finally:")
            L.append("        " + self.p())
            if r.random() < 0.5:
                L.append("        await asyncio.sleep(%s)" % self.d())
                L.append("        " + self.p())
            L.append("")
        self.nagen = nag
        nch = r.randint(2, 4)
        for j in range(nch):
            L.append("async def c%d(a=0):" % j)
            L.append("    v = None")
            L.append("    " + self.p())
            L += self.block(1 if j < 2 else 2, "    ")
            L.append("    return %d" % (100 + j))
            L.append("")
            self.nchild = j + 1
        for j in range(2):
            L.append("async def root%d(a=0):" % j)
            L.append("    v = None")
            L.append("    " + self.p())
            L += self.block(3, "    ")
            L.append("    " + self.p())
            L.append("    return ('done', %d)" % j)
            L.append("")
        return "\n".join(L) + "\n"


def gen_module(rng):
    return AG(rng).module()


def gen_scenario(rng):
    """External schedule + fault plan; both independent of the module text."""
    times = [0.0, 0.05, 0.1, 0.15, 0.25, 0.3, 0.35, 0.5, 0.6, 0.75, 1.0, 1.05, 1.25, 1.5, 2.0, 3.0]
    actions = []
    r = rng.random()
    if r < 0.75:
        for _ in range(rng.choice([1, 1, 1, 2, 3])):
            actions.append([rng.choice(times), rng.choice(["cancel", "cancel", "cancel_msg"])])
    actions.sort()
    plan = {}
    if rng.random() < 0.35:
        for _ in range(rng.choice([1, 1, 2])):
            plan[str(rng.randrange(0, 14))] = rng.choice([["raise", "E1"], ["raise", "E2"], ["raise", "KeyError"], ["raise", "Cancelled"], ["selfcancel", 0]])
    return {"root": rng.randrange(2), "arg": rng.randrange(2), "actions": actions, "plan": plan}


# --------------------------------------------------------------------------

def run_scenario(mod, sc, sm):
    """Runs one scenario on a fresh virtual loop; returns the trace (list)."""
    loop = sm.VirtualLoop()
    loop.set_exception_handler(lambda lp, ctx: None)     # "never retrieved" reports depend on GC timing: not part of the trace
    sm.reset({int(k): v for k, v in sc["plan"].items()}, loop)
    log = sm.LOG
    outcome = None
    try:
        with warnings.catch_warnings():
            warnings.simplefilter("ignore")
            root = loop.create_task(getattr(mod, "root%d" % sc["root"])(sc["arg"]))

            def act(kind):
                log.append(("action", sm.now(), kind, root.done()))
                if kind == "cancel":
                    root.cancel()
                else:
                    root.cancel(msg="m")
            for t, kind in sc["actions"]:
                loop.call_at(t, act, kind)

            def watchdog():
                log.append(("watchdog", sm.now()))
                for t in asyncio.all_tasks(loop):
                    t.cancel()
            wd = loop.call_at(60.0, watchdog)
            try:
                res = loop.run_until_complete(root)
                outcome = ("value", sm.norm(res))
            except BaseException as e:
                if isinstance(e, (SystemExit, KeyboardInterrupt)):
                    raise
                outcome = ("raise", sm.describe(e))
                del e
            log.append(("root-finished", sm.now(), outcome))
            wd.cancel()
            # what is still pending when the root is done: cancel it and let it unwind (finally blocks, async generators)
            pending = [t for t in asyncio.all_tasks(loop) if not t.done()]
            log.append(("pending-after-root", len(pending)))
            if pending and sc.get("drain", "wait") == "wait":
                # let them finish on their own first (30 virtual seconds).  Cancelling at once would throw into aclose() tasks
                # that the asyncgen finalizer hook created and that have not made their first step: CPython 3.12.1 does not
                # mark such an awaitable as started (fixed in later CPython), so its trace differs there by a CPython quirk.
                try:
                    loop.run_until_complete(asyncio.wait(pending, timeout=30))
                except BaseException as e:
                    log.append(("drain-wait-raised", sm.describe(e)))
                pending = [t for t in pending if not t.done()]
                log.append(("pending-after-wait", len(pending)))
            for t in pending:
                t.cancel()
            if pending:
                try:
                    loop.run_until_complete(asyncio.gather(*pending, return_exceptions=True))
                except BaseException as e:
                    log.append(("drain-raised", sm.describe(e)))
            try:
                loop.run_until_complete(loop.shutdown_asyncgens())
            except BaseException as e:
                log.append(("shutdown-asyncgens-raised", sm.describe(e)))
            log.append(("end", sm.now()))
    finally:
        try:
            loop.close()
        except Exception:
            pass
        sm.LOOP[0] = None
    gc.collect()
    return json.loads(json.dumps({"trace": list(log), "steps": loop.steps}))


_loaded = {}


def load_pair(ms):
    if ms["name"] not in _loaded:
        if SEAMDIR not in sys.path:
            sys.path.insert(0, SEAMDIR)
        import simasync
        sut = build.load_ext(ms["name"], ms["so"])
        model = types.ModuleType(ms["name"] + "_model")
        exec(compile(ms["src"], ms["name"] + ".py", "exec"), model.__dict__)
        _loaded[ms["name"]] = (sut, model, simasync)
    return _loaded[ms["name"]]


def first_diff(a, b):
    k = 0
    while k < min(len(a), len(b)) and a[k] == b[k]:
        k += 1
    if k == len(a) == len(b):
        return None
    return {"event": k, "model": a[k:k + 2], "sut": b[k:k + 2]}


def compare(ms, sc):
    sut, model, sm = load_pair(ms)
    rm = run_scenario(model, sc, sm)
    rs = run_scenario(sut, sc, sm)
    return rm, rs, first_diff(rm["trace"], rs["trace"])


def one_run(check, seed, i, cfg):
    mods = cfg["modules"]
    ms = mods[i % len(mods)]
    rng = core.rng_for(check + ":async", seed, i)
    res = {"probes": {}, "faults": {}, "n": 0, "nontrivial_digests": [], "steps": 0}
    P = res["probes"]
    for _ in range(cfg["scenarios_per_run"]):
        sc = gen_scenario(rng)
        rm, rs, d = compare(ms, sc)
        res["n"] += 1
        res["steps"] += rm["steps"]
        endt = [ev[1] for ev in rm["trace"] if ev[0] == "end"]
        if endt:
            P["simulated_time_ms_asyncio"] = P.get("simulated_time_ms_asyncio", 0) + int(endt[-1] * 1000)
        flat = json.dumps(rm["trace"])
        nact = sum(1 for ev in rm["trace"] if ev[0] == "action" and not ev[3])
        if nact:
            res["faults"]["cancel_root_while_running"] = res["faults"].get("cancel_root_while_running", 0) + nact
        for ev in rm["trace"]:
            if ev[0] == "inject":
                res["faults"]["probe_raise:" + ev[2]] = res["faults"].get("probe_raise:" + ev[2], 0) + 1
            elif ev[0] == "selfcancel":
                res["faults"]["self_cancel"] = res["faults"].get("self_cancel", 0) + 1
        if '"CancelledError"' in flat:
            P["cancellation_observed_in_body"] = P.get("cancellation_observed_in_body", 0) + 1
        if '"TimeoutError"' in flat:
            P["timeout_fired"] = P.get("timeout_fired", 0) + 1
        if '"watchdog"' in flat:
            P["watchdog_fired"] = P.get("watchdog_fired", 0) + 1
        if rm["trace"] and any(ev[0] == "pending-after-root" and ev[1] for ev in rm["trace"]):
            P["tasks_pending_after_root"] = P.get("tasks_pending_after_root", 0) + 1
        if nact or sc["plan"]:
            res["nontrivial_digests"].append(core.digest([ms["name"], sc]))
        if d is not None and "violation" not in res:
            res["violation"] = {"klass": "asyncio-trace-differs-from-cpython", "detail": d, "scenario": sc, "module": ms["name"], "src": ms["src"], "family": "E3b"}
    if i % 40 == 0:
        res["sample"] = {"module": ms["name"], "scenario_example": sc, "trace_tail": rm["trace"][-6:]}
    return res


def build_modules(seed, nmods, tag, cflags=(), directives=None):
    specs, metas = [], []
    for m in range(nmods):
        rng = core.rng_for("C23-async-module", seed, m)
        src = gen_module(rng)
        name = "wl23a_%s_%d_%d" % (tag, seed, m)
        specs.append({"name": name, "src": src, "ext": ".py", "cflags": tuple(cflags), "directives": directives})
        metas.append({"name": name, "src": src})
    sos = build.build_many(specs)
    out, errors = [], []
    for meta, so in zip(metas, sos):
        if isinstance(so, Exception):
            errors.append(str(so)[-800:])
            continue
        meta["so"] = so
        out.append(meta)
    return out, errors


def explore(rep, prop, seed, tier, tag, cflags=(), directives=None, budget=30, nmods=None, nruns=None):
    nmods = nmods or (6 if tier == "quick" else 16)
    mods, errors = build_modules(seed, nmods, tag, cflags, directives)
    for e in errors:
        rep.probes["async_workload_modules_not_built"] = rep.probes.get("async_workload_modules_not_built", 0) + 1
        sys.stderr.write("E3b workload build failed (dropped): %s\n" % e[-500:])
    if not mods:
        rep.harness_errors.append("no E3b workload module could be built: %s" % (errors[:1],))
        return [], mods, {}
    cfg = {"modules": mods, "scenarios_per_run": 25, "case_timeout_s": 120}
    deadline = time.time() + budget
    n = nruns or (480 if tier == "quick" else 10 ** 7)
    viol = []
    start, batch = 0, 480
    while start < n and time.time() < deadline:
        results = core.run_forked(one_run, prop, seed, range(start, min(n, start + batch)), cfg, deadline=deadline)
        start += batch
        for i, r in results:
            if "crash" in r:
                viol.append((i, {"klass": "crash", "detail": {"signal": r["crash"]}, "module": mods[i % len(mods)]["name"], "src": mods[i % len(mods)]["src"],
                                 "scenario": None, "family": "E3b"}))
                continue
            if "harness_error" in r:
                rep.harness_errors.append(r["harness_error"])
                continue
            rep.absorb(r)
            if "violation" in r:
                viol.append((i, r["violation"]))
        if viol:
            break
    return viol, mods, cfg


def run_single(ms, sc):
    rm, rs, d = compare(ms, sc)
    return d


def recover_crash(seed, i, cfg, mods, prop):
    ms = mods[i % len(mods)]
    rng = core.rng_for(prop + ":async", seed, i)
    for _ in range(cfg["scenarios_per_run"]):
        sc = gen_scenario(rng)
        st, r = core.run_one_forked(run_single, ms, sc, timeout=60)
        if st == "crash":
            return sc
    return None


def minimise(v, ms):
    sc = v["scenario"]

    def fails(s2):
        st, r = core.run_one_forked(run_single, ms, s2, timeout=60)
        return st == "crash" or (st == "ok" and r is not None)
    acts = list(sc["actions"])
    if len(acts) > 1:
        acts = core.ddmin(acts, lambda a: fails(dict(sc, actions=a)), max_tests=12)
    sc2 = dict(sc, actions=acts)
    items = sorted(sc2["plan"].items())
    if items:
        items = core.ddmin(items, lambda it: fails(dict(sc2, plan=dict(it))), max_tests=12) if len(items) > 1 else (items if not fails(dict(sc2, plan={})) else [])
    sc3 = dict(sc2, plan=dict(items))
    st, r = core.run_one_forked(run_single, ms, sc3, timeout=60)
    if st == "ok" and r is not None:
        return dict(v, scenario=sc3, detail=r, minimised=True)
    if st == "crash":
        return dict(v, scenario=sc3, klass="crash", detail={"crash": r}, minimised=True)
    return v


def replay(payload):
    core.stage()
    name = "wit23a_" + core.digest([payload["src"], payload.get("cflags"), payload.get("directives")])[:10]
    so = build.build_ext(name, payload["src"], ".py", cflags=tuple(payload.get("cflags") or ()), directives=payload.get("directives"))
    ms = {"name": name, "src": payload["src"], "so": so}
    st, r = core.run_one_forked(run_single, ms, payload["scenario"], timeout=60)
    print("replayed (E3b asyncio): %s %s" % (st, json.dumps(r)[:600] if r is not None else None))
    if payload.get("klass") == "crash":
        return st == "crash"
    return st == "crash" or (st == "ok" and r is not None)
