"""Riders: properties decided by re-running the simulated workloads of other
engines under a different observer or build (no workload of their own).

C45 — E3/E4 workloads compiled with profile/linetrace and CYTHON_TRACE, run
      under sys.setprofile / sys.settrace with an event-stream monitor.
C36 — E3-E6, E8 workloads rebuilt with ASan/UBSan; the same seeded histories
      and fault plans are replayed; any sanitizer abort is a violation.
C39 — E3-E6 workloads rebuilt in seeded build-configuration cells; the same
      seeds must give the model's trace in every cell.
"""
import json
import os
import subprocess
import sys
import time

from . import core, build, e3_gen, e4_exc

TRACE_DIRECTIVES = {"profile": True, "linetrace": True}
TRACE_CFLAGS = ("-DCYTHON_TRACE=1",)


def check_C45(tier):
    prop = "C45"
    seed = core.env_seed()
    core.stage()
    rep = core.Report(prop, "rider:E3+E4+E11 under profile/trace", tier, seed)
    rep.rule = ("the generator-history workloads of E3 and the exception fault-plan workloads of E4, compiled with profile=True, linetrace=True, -DCYTHON_TRACE=1 and run under "
"sys.setprofile, sys.settrace, both at once, or a settrace tracer that declines some scopes (returns None on their call event; such a scope must get no further events and the program must behave as untraced) - cases alternate - with a monitor checked while the run proceeds: every start event of a workload function is matched by "
                "exactly one return event of the same code object, properly nested; the stack of open activations is empty at the end of each history/plan; line events "
                "occur inside the activation of their function and name a line inside its def span. Faults: the same throws, closes, abandonments and injected raises. "
                "Third workload family (E11): generated .pyx modules - cdef functions with every exception specification (noexcept -> unraisable), cpdef + Python override, "
                "cdef-class __next__/__enter__/__exit__/property, nogil helper re-acquiring the GIL, typed conversions made to fail by probe return values - under fault plans. "
                "non-trivial / distinct as in the host engines")
    rep.components = {"real": ["Cython/Utility/Profile.c event emission", "generated trace calls (put_trace_*)", "sys.setprofile / sys.settrace of CPython 3.12"],
                      "stub": ["monitor callbacks"]}
    rep.assumptions = ["equality with CPython's own event stream is not required (the statement does not ask for it)", "single thread"]
    budget = core.env_budget(70 if tier == "quick" else 900)
    viol3, mods3 = e3_gen.explore(rep, seed, tier, "trace", cflags=TRACE_CFLAGS, directives=TRACE_DIRECTIVES, budget=budget * 0.5,
                                  nruns=600 if tier == "quick" else None, extra_cfg={"observer": True}, nmods=3 if tier == "quick" else 8, prop=prop)
    viol4, mods4, cfg4 = e4_exc.explore(rep, prop, seed, tier, "trace", cflags=TRACE_CFLAGS, directives=TRACE_DIRECTIVES, budget=budget * 0.5,
                                        extra_cfg={"observer": True, "single_cap": 20, "nmulti": 10}, nmods=3 if tier == "quick" else 8)
    # typed .pyx family (E11): cdef functions with every exception specification incl. noexcept (unraisable), cpdef with Python
    # override, cdef-class __next__/__enter__/__exit__/properties, nogil helpers - no CPython model needed for this observer
    from . import e11_pyx
    viol11, mods11, cfg11, _ = e11_pyx.explore(rep, prop, seed, tier, "trace", "trace", cflags=TRACE_CFLAGS, directives=TRACE_DIRECTIVES,
                                               budget=budget * 0.35, nmods=3 if tier == "quick" else 8)
    modmap11 = {m["name"]: m for m in mods11}
    for i, v in viol11:
        if v["klass"] == "crash" and v.get("func") is None:
            rec = e11_pyx.recover_crash(seed, i, cfg11, mods11, prop, "trace")
            if rec:
                v["func"], v["arg"], v["plan"] = rec
        elif v.get("func") is not None:
            v.update(e11_pyx.minimise_plan(v, modmap11[v["module"]], "trace"))
    core.replay_known(prop, replay, rep)
    rep.determinism = {"seeds": 0, "mismatches": 0, "note": "host engines' self-checks apply (C23, C22)"}
    seen = set()
    for i, v in list(viol3) + list(viol4) + list(viol11):
        if v["klass"] in seen:
            continue
        seen.add(v["klass"])
        if v["klass"] == "crash" and v.get("family") != "E11":
            rep.harness_errors.append("a traced workload crashed a worker (run %s): %s" % (i, json.dumps(v.get("detail"))))
            continue
        v = dict(v, property=prop, cflags=list(TRACE_CFLAGS), directives=TRACE_DIRECTIVES)
        rep.violation("%s (run %s): %s" % (v["klass"], i, json.dumps(v["detail"])[:300]), dict(v, seed=seed, run_index=i))
    rep.extra["clock"] = "none"
    return rep.finish()


def _replay_c36_host(payload):
    """A C36 violation found in a host engine's workload: replay that engine's case on the module rebuilt with the sanitizers,
    in an interpreter that has the sanitizer runtimes preloaded.  The module is built first by an unsanitized run (gcc must
    not run under LD_PRELOAD=libasan), the sanitized run then finds it in the build cache."""
    import tempfile
    host = {"E3": "C23", "E3b": "C23", "E4": "C22", "E5": "C35", "E11": "C35", "E6": "C14", "E8": "C37"}.get(payload.get("engine_host"))
    if host is None or payload.get("engine_host") in ("E6", "E8"):
        raise core.HarnessError("no sanitized replay for host engine %r" % (payload.get("engine_host"),))
    p2 = dict(payload, property=host, cflags=list(ASAN_CFLAGS), klass="crash")
    if payload.get("engine_host") == "E3b":
        p2["family"] = "E3b"
    if payload.get("engine_host") == "E11":
        p2["family"] = "E11"
    core.workdir()
    fd, path = tempfile.mkstemp(suffix=".json", dir=core.workdir())
    with os.fdopen(fd, "w") as f:
        json.dump(p2, f)
    env0 = dict(os.environ)
    subprocess.run([sys.executable, "-m", "simkit", "replay", path], env=env0, cwd=core.VERIF, capture_output=True)      # builds (and may crash)
    logdir = os.path.join(core.workdir(), "sanlogs-replay")
    os.makedirs(logdir, exist_ok=True)
    env = dict(env0, LD_PRELOAD=_san_lib("libasan.so") + ":" + _san_lib("libubsan.so"), PYTHONMALLOC="malloc",
               ASAN_OPTIONS="detect_leaks=0:abort_on_error=1:allocator_may_return_null=1:log_path=%s/asan" % logdir,
               UBSAN_OPTIONS="halt_on_error=1:abort_on_error=1:log_path=%s/ubsan" % logdir)
    r = subprocess.run([sys.executable, "-m", "simkit", "replay", path], env=env, cwd=core.VERIF, capture_output=True, text=True)
    reports = _san_reports(logdir, 0)
    print("replayed %s case under sanitizers: exit %s %s" % (payload.get("engine_host"), r.returncode, (reports[0][:300].replace("\n", " ") if reports else r.stdout.strip()[-200:])))
    return r.returncode == 1


def _replay_e3_traced(ms, h, mode):
    from . import tracemon
    sut, model, sm = e3_gen.load_pair(ms)
    f19 = () if os.environ.get("SIMKIT_RAW_REPLAY") else tracemon.funcs_returning_inside_try_finally(ms["src"])
    mon = tracemon.make(mode, ms["name"] + ".py", tracemon.function_spans(ms["src"]), f19)
    mon.install()
    try:
        e3_gen.run_history(sut, h, sm)
    finally:
        p = mon.finish()
    return p or None


def _replay_e4_traced(ms, fi, arg, plan, mode):
    from . import tracemon
    pair = e4_exc.load_pair(ms)
    f19 = () if os.environ.get("SIMKIT_RAW_REPLAY") else tracemon.funcs_returning_inside_try_finally(ms["src"])
    mon = tracemon.make(mode, ms["name"] + ".py", tracemon.function_spans(ms["src"]), f19)
    mon.install()
    try:
        rs, _ = e4_exc.run_case(pair[0], fi, arg, plan, pair[2])
    finally:
        p = mon.finish()
    if not p and mode == "decline":
        ru, _ = e4_exc.run_case(pair[0], fi, arg, plan, pair[2])
        if (ru["outcome"], ru["log"]) != (rs["outcome"], rs["log"]):
            p = [{"what": "tracing-changes-behaviour", "traced": rs["outcome"], "untraced": ru["outcome"]}]
    return p or None


def replay(payload):
    core.stage()
    prop = payload["property"]
    if prop == "C36" and not payload.get("corpus"):
        return _replay_c36_host(payload)
    if prop == "C45" and payload.get("family") == "E11":
        from . import e11_pyx
        return e11_pyx.replay(payload, "trace", cflags=TRACE_CFLAGS, directives=TRACE_DIRECTIVES)
    if prop == "C45":
        name = "wit45_" + core.digest(payload["src"])[:8]
        so = build.build_ext(name, payload["src"], ".py", cflags=TRACE_CFLAGS, directives=TRACE_DIRECTIVES)
        ms = {"name": name, "src": payload["src"], "so": so, "nfuncs": 99}
        if payload.get("raw"):
            os.environ["SIMKIT_RAW_REPLAY"] = "1"
        if "history" in payload:
            st, r = core.run_one_forked(_replay_e3_traced, ms, payload["history"], payload.get("observer_mode", "profile"), timeout=60)
        else:
            st, r = core.run_one_forked(_replay_e4_traced, ms, payload["func"], payload["arg"], payload["plan"], payload.get("observer_mode", "profile"), timeout=60)
        os.environ.pop("SIMKIT_RAW_REPLAY", None)
        print("replayed: %s %s" % (st, json.dumps(r)[:500] if r is not None else None))
        return st == "crash" or (st == "ok" and r is not None)
    if prop == "C39" and payload.get("family") == "E3b":
        from . import e3_async
        cell = [c for c in C39_CELLS if c["cell"] == payload["cell"]][0]
        return e3_async.replay(dict(payload, cflags=list(cell.get("cflags", ())), directives=cell.get("directives")))
    if prop == "C39" and payload.get("family") == "E11":
        from . import e11_pyx
        cell = [c for c in C39_CELLS if c["cell"] == payload["cell"]][0]
        outs = []
        for kw in ({}, dict(cflags=tuple(cell.get("cflags", ())), directives=cell.get("directives"), cplus=cell.get("cplus", False))):
            name = "wit11c_" + core.digest([payload["src"], sorted(kw.items(), key=str)])[:10]
            so = build.build_ext(name, payload["src"], ".pyx", **kw)
            ms = {"name": name, "src": payload["src"], "so": so, "nfuncs": 99, "meta": payload["meta"]}
            outs.append(core.run_one_forked(e11_pyx.run_single, ms, payload["func"], payload["arg"], payload["plan"], None, timeout=60))
        print("replayed E11 in default build and cell %s: %s" % (cell["cell"], json.dumps(outs)[:600]))
        return outs[1][0] != "ok" or outs[0][0] != "ok" or outs[0][1]["digest"] != outs[1][1]["digest"]
    if prop == "C39" and not payload.get("corpus"):
        cell = [c for c in C39_CELLS if c["cell"] == payload["cell"]][0]
        name = "wit39_" + core.digest([payload["src"], cell["cell"]])[:10]
        kw = dict(cflags=tuple(cell.get("cflags", ())), directives=cell.get("directives"), cplus=cell.get("cplus", False))
        if "history" in payload:
            so = build.build_ext(name, payload["src"], ".py", **kw)
            st, r = core.run_one_forked(e3_gen.run_single, {"name": name, "src": payload["src"], "so": so}, payload["history"], timeout=60)
        else:
            name = "wl22_" + name
            so = build.build_ext(name, payload["src"], ".py", **kw)
            st, r = core.run_one_forked(e4_exc.run_single, {"name": name, "src": payload["src"], "so": so, "nfuncs": 99},
                                        payload["func"], payload["arg"], payload["plan"], "C22", timeout=60)
        print("replayed in cell %s: %s %s" % (cell["cell"], st, json.dumps(r)[:400] if r is not None else None))
        return st == "crash" or (st == "ok" and r is not None)
    if payload.get("corpus"):
        from . import rider_corpus
        seed = payload.get("seed", 0)
        if prop == "C39":
            cell = [c for c in C39_CELLS if c["cell"] == payload["cell"]][0]
            d0 = rider_corpus.build_cell("c39default")
            d1 = rider_corpus.build_cell("c39" + cell["cell"], cell.get("cflags", ()), cell.get("directives"), cell.get("cplus", False))
            a = core.run_one_forked(rider_corpus.run_all, d0[1], d0[0], seed, timeout=300)
            b = core.run_one_forked(rider_corpus.run_all, d1[1], d1[0], seed, timeout=300)
            bad = a[0] != "ok" or b[0] != "ok" or rider_corpus.first_diff(a[1], b[1], seed) is not None
            print("replayed corpus: %s" % ("differs" if bad else "same"))
            return bad
        if prop == "C36" and payload.get("model_compare"):
            # one corpus case in the plain build: undefined behaviour that the sanitizers do not see (reads that stay inside
            # the object) shows up as a wrong outcome or a crash
            cname, cso = rider_corpus.build_cell("plain")
            st, r = core.run_one_forked(rider_corpus.run_case, cso, cname, payload["case"], timeout=120)
            want = rider_corpus.model_case(payload["case"])
            print("replayed corpus case against the model: %s %s (python: %s)" % (st, r, want))
            return st != "ok" or r != want
        if prop == "C36" and payload.get("case") is None:
            raise core.HarnessError("this corpus replay names no single case (the crash needed a combination of cases)")
        if prop == "C36":
            # one corpus case under the sanitizers, in a sanitized interpreter
            cname, cso = rider_corpus.build_cell("asan", ASAN_CFLAGS)
            logdir = os.path.join(core.workdir(), "sanlogs-replay")
            os.makedirs(logdir, exist_ok=True)
            env = dict(os.environ, LD_PRELOAD=_san_lib("libasan.so") + ":" + _san_lib("libubsan.so"), PYTHONMALLOC="malloc",
                       ASAN_OPTIONS="detect_leaks=0:abort_on_error=1:log_path=%s/asan" % logdir,
                       UBSAN_OPTIONS="halt_on_error=1:abort_on_error=1:log_path=%s/ubsan" % logdir,
                       PYTHONPATH=core.VERIF + os.pathsep + os.environ.get("PYTHONPATH", ""))
            code = ("import sys, json; from simkit import build, rider_corpus as rc; m = build.load_ext(%r, %r); fn, args = json.loads(sys.argv[1]); "
                    "\ntry: print(getattr(m, fn)(*rc.to_args(fn, args)))\nexcept Exception as e: print('raised', type(e).__name__)" % (cname, cso))
            r = subprocess.run([sys.executable, "-c", code, json.dumps(payload["case"])], env=env, capture_output=True, text=True, cwd=core.VERIF)
            reports = _san_reports(logdir, 0)
            print("replayed corpus case under sanitizers: exit %s %s" % (r.returncode, (reports[0][:300].replace("\n", " ") if reports else r.stdout.strip()[:100])))
            return r.returncode != 0
    raise core.HarnessError("no replay for %s here" % prop)


# --------------------------------------------------------------------------
# C36: sanitizer observer

ASAN_CFLAGS = ("-O1", "-g", "-fsanitize=address,undefined", "-fno-sanitize-recover=all", "-fno-omit-frame-pointer")


def _san_lib(name):
    return subprocess.run(["gcc", "-print-file-name=" + name], capture_output=True, text=True).stdout.strip()


def _c36_sizes(tier):
    return {"e3_mods": 2 if tier == "quick" else 8, "e4_mods": 2 if tier == "quick" else 8, "e5_mods": 3 if tier == "quick" else 12}


SELFTEST_SRC = '''
cdef extern from *:
    """
    #include <stdlib.h>
    static int sim_oob(int n) { volatile char *p = (char*)malloc(8); int v = p[n]; free((void*)p); return v; }
    static int sim_uaf(void) { volatile int *p = (int*)malloc(16); p[0] = 7; free((void*)p); return p[0]; }
    static int sim_ovf(int a) { return a + 2147483647; }
    """
    int sim_oob(int n)
    int sim_uaf()
    int sim_ovf(int a)

def oob(n):
    return sim_oob(n)

def uaf():
    return sim_uaf()

def ovf(a):
    return sim_ovf(a)
'''


def _selftest_build():
    return build.build_ext("wl36_selftest", SELFTEST_SRC, ".pyx", cflags=ASAN_CFLAGS)


def _selftest_call(so, which):
    m = build.load_ext("wl36_selftest", so)
    return {"oob": lambda: m.oob(8), "uaf": m.uaf, "ovf": lambda: m.ovf(5), "ok": lambda: m.oob(3)}[which]()


def _c36_prebuild(seed, tier):
    """Build every sanitized workload in the UNsanitized outer process (the inner one then only hits the build cache)."""
    from concurrent.futures import ThreadPoolExecutor
    from . import e5_refs, e6_loops, e8_omp
    sz = _c36_sizes(tier)
    jobs = [lambda: e3_gen.build_modules(seed, sz["e3_mods"], 16, "asan", ASAN_CFLAGS, None),
            lambda: e4_exc.build_modules(seed, sz["e4_mods"], 24, "asan", ASAN_CFLAGS, None),
            lambda: e5_refs.build_modules(seed, sz["e5_mods"], 30, "asan", ASAN_CFLAGS),
            lambda: e6_loops.build_mods([{"cell": "asan", "cflags": ASAN_CFLAGS}], tag=""),
            lambda: e8_omp.build_module(ASAN_CFLAGS, ("-fsanitize=address,undefined",), name="wl37asan"),
            lambda: __import__("simkit.e11_pyx", fromlist=["x"]).build_modules(seed, 2 if tier == "quick" else 6, 12, "asan", ASAN_CFLAGS),
            lambda: __import__("simkit.e3_async", fromlist=["x"]).build_modules(seed, 2 if tier == "quick" else 6, "asan", ASAN_CFLAGS),
            _selftest_build,
            lambda: __import__("simkit.rider_corpus", fromlist=["x"]).build_cell("asan", ASAN_CFLAGS)]
    with ThreadPoolExecutor(max_workers=len(jobs)) as ex:
        for f in [ex.submit(j) for j in jobs]:
            f.result()


def _san_reports(logdir, since):
    out = []
    try:
        names = sorted(os.listdir(logdir))
    except OSError:
        return out
    for n in names:
        p = os.path.join(logdir, n)
        try:
            if os.path.getmtime(p) >= since:
                with open(p, errors="replace") as f:
                    out.append(f.read()[:1500])
        except OSError:
            pass
    return out


def check_C36(tier):
    prop = "C36"
    seed = core.env_seed()
    core.stage()
    if os.environ.get("SIMKIT_SANITIZED") != "1":
        asan, ubsan = _san_lib("libasan.so"), _san_lib("libubsan.so")
        if not (os.path.isabs(asan) and os.path.exists(asan)):
            print("HARNESS-ERROR property=C36 libasan not found")
            return 2
        _c36_prebuild(seed, tier)
        logdir = os.path.join(core.workdir(), "sanlogs")
        os.makedirs(logdir, exist_ok=True)
        env = dict(os.environ, SIMKIT_SANITIZED="1", LD_PRELOAD=asan + ":" + ubsan, PYTHONMALLOC="malloc",
                   ASAN_OPTIONS="detect_leaks=0:abort_on_error=1:allocator_may_return_null=1:log_path=%s/asan" % logdir,
                   UBSAN_OPTIONS="print_stacktrace=1:halt_on_error=1:abort_on_error=1:log_path=%s/ubsan" % logdir,
                   SIMKIT_SANLOGS=logdir)
        r = subprocess.run([sys.executable, "-m", "simkit", "check", "C36", "--tier", tier], env=env, cwd=core.VERIF)
        return r.returncode
    # ---- inner, sanitized process
    from . import e5_refs, e6_loops, e8_omp
    logdir = os.environ.get("SIMKIT_SANLOGS", "")
    rep = core.Report(prop, "rider:E3-E6,E8 under ASan/UBSan", tier, seed)
    rep.rule = ("the seeded histories, fault plans, fault sweeps, loop scripts and OpenMP schedules of E3, E4, E5, E6 and E8 replayed on workloads rebuilt with "
                "-O1 -fsanitize=address,undefined -fno-sanitize-recover=all, in an interpreter running with LD_PRELOAD=libasan:libubsan and PYTHONMALLOC=malloc; "
                "any sanitizer abort (or other crash) in a run is a violation; behavioural differences are the host properties' business and ignored here. "
                "non-trivial / distinct as in the host engines")
    rep.components = {"real": ["generated C and Cython utility code compiled with ASan/UBSan instrumentation", "libasan/libubsan runtimes", "CPython (uninstrumented) on the malloc allocator"],
                      "stub": ["as in the host engines"]}
    rep.assumptions = ["scope is the simulated workloads of the other engines, not all differential programs", "CPython itself is not instrumented: errors inside the interpreter are only seen through the interposed allocator"]
    budget = core.env_budget(100 if tier == "quick" else 1200)
    sz = _c36_sizes(tier)
    t0 = time.time()
    crashes = []
    # the observer must be armed: a deliberate heap overflow / use-after-free / signed overflow has to abort, a clean call must not
    so = _selftest_build()
    armed = {}
    for which in ("ok", "oob", "uaf", "ovf"):
        st, r = core.run_one_forked(_selftest_call, so, which, timeout=60)
        armed[which] = st
    rep.probes["selftest_clean_call_ok"] = int(armed["ok"] == "ok")
    for which in ("oob", "uaf", "ovf"):
        rep.probes["selftest_detects_" + which] = int(armed[which] == "crash")
    if armed["ok"] != "ok" or any(armed[w] != "crash" for w in ("oob", "uaf", "ovf")):
        rep.harness_errors.append("sanitizer observer is not armed: %r" % (armed,))
    time.sleep(1.1)
    t0 = time.time()        # sanitizer reports of the self-test are not evidence of anything

    def note(engine, i, v, recover):
        crashes.append((engine, i, v, recover))
    # E3
    viol, mods3 = e3_gen.explore(rep, seed, tier, "asan", cflags=ASAN_CFLAGS, budget=budget * 0.2, nruns=480 if tier == "quick" else None,
                                 nmods=sz["e3_mods"], prop=prop)
    for i, v in viol:
        if v["klass"] == "crash":
            cfg = {"modules": mods3, "histories_per_run": 50, "maxlen": 8 if tier == "quick" else 12}
            h = e3_gen.recover_crash_history(seed, i, cfg, mods3) if v.get("history") is None else v["history"]
            note("E3", i, dict(v, history=h), None)
    # E4
    viol, mods4, cfg4 = e4_exc.explore(rep, prop, seed, tier, "asan", cflags=ASAN_CFLAGS, budget=budget * 0.2, nmods=sz["e4_mods"],
                                       extra_cfg={"single_cap": 40, "nmulti": 30})
    for i, v in viol:
        if v["klass"] == "crash":
            if v.get("func") is None:
                rec = e4_exc.recover_crash(seed, i, cfg4, mods4, prop)
                if rec:
                    v = dict(v, func=rec[0], arg=rec[1], plan=rec[2])
            note("E4", i, v, None)
    # E5
    viol, mods5, cfg5 = e5_refs.explore(rep, seed, tier, "asan", cflags=ASAN_CFLAGS, budget=budget * 0.2, nmods=sz["e5_mods"], prop=prop)
    for i, v in viol:
        if v["klass"] == "crash":
            mm = {m["name"]: m for m in mods5}
            if v.get("plan") is None:
                v = dict(v, plan=e5_refs.recover_crash_plan(mm[v["module"]], v["func"], cfg5))
            note("E5", i, v, None)
    # E6
    mods6 = e6_loops.build_mods([{"cell": "asan", "cflags": ASAN_CFLAGS}], tag="")
    cfg6 = {"modules": mods6, "cases_per_run": 200, "case_timeout_s": 120}
    res6 = core.run_forked(e6_loops.one_run, prop, seed, range(320 if tier == "quick" else 6400), cfg6, deadline=time.time() + budget * 0.15)
    for i, r in res6:
        if "crash" in r:
            note("E6", i, {"klass": "crash", "detail": {"signal": r["crash"]}, "run_index": i}, None)
        elif "harness_error" in r:
            rep.harness_errors.append(r["harness_error"])
        else:
            r.pop("violation", None)
            rep.absorb(r)
    # E8
    ms8 = e8_omp.build_module(ASAN_CFLAGS, ("-fsanitize=address,undefined",), name="wl37asan")
    cfg8 = {"module": ms8, "cases_per_run": 40, "case_timeout_s": 180}
    res8 = core.run_forked(e8_omp.one_run, prop, seed, range(160 if tier == "quick" else 3200), cfg8, deadline=time.time() + budget * 0.15)
    for i, r in res8:
        if "crash" in r:
            note("E8", i, {"klass": "crash", "detail": {"exit": r["crash"]}, "run_index": i}, None)
        elif "harness_error" in r:
            rep.harness_errors.append(r["harness_error"])
        else:
            r.pop("violation", None)
            rep.absorb(r)
    # E3b: coroutines / async generators under the real asyncio Task machinery on the virtual-time loop (cancellation schedules)
    from . import e3_async
    violb, modsb, cfgb = e3_async.explore(rep, prop, seed, tier, "asan", cflags=ASAN_CFLAGS, budget=budget * 0.1, nmods=2 if tier == "quick" else 6,
                                          nruns=96 if tier == "quick" else None)
    for i, v in violb:
        if v["klass"] == "crash":
            if v.get("scenario") is None:
                v = dict(v, scenario=e3_async.recover_crash(seed, i, cfgb, modsb, prop))
            note("E3b", i, v, None)
    # E11 typed .pyx family (cdef functions / classes, typed conversions, nogil helpers) under fault plans
    from . import e11_pyx
    viol11, mods11, cfg11, _ = e11_pyx.explore(rep, prop, seed, tier, "asan", None, cflags=ASAN_CFLAGS, budget=budget * 0.12, nmods=2 if tier == "quick" else 6)
    for i, v in viol11:
        if v["klass"] == "crash":
            if v.get("func") is None:
                rec = e11_pyx.recover_crash(seed, i, cfg11, mods11, prop, None)
                if rec:
                    v = dict(v, func=rec[0], arg=rec[1], plan=rec[2])
            note("E11", i, v, None)
    # enumerated corpus under the sanitizers (slicing/indexing around the bounds, big-int arithmetic helpers)
    from . import rider_corpus
    cname, cso = rider_corpus.build_cell("asan", ASAN_CFLAGS)
    st, r = core.run_one_forked(rider_corpus.run_all, cso, cname, seed, timeout=600)
    if st == "ok":
        rep.evaluations += len(r)
        rep.probes["corpus_cases_under_sanitizers"] = len(r)
    else:
        case = rider_corpus.find_crashing_case(cso, cname, seed)
        note("corpus", -1, {"klass": "crash", "detail": {"status": st, "info": r}, "corpus": True, "case": case}, None)
    core.replay_known(prop, replay, rep)
    rep.probes["sanitizer_runtime_loaded"] = int("libasan" in os.environ.get("LD_PRELOAD", ""))
    reports = _san_reports(logdir, t0) if logdir else []
    rep.probes["sanitizer_report_files"] = len(reports)
    rep.determinism = {"seeds": 0, "mismatches": 0, "note": "host engines' self-checks apply"}
    seen = set()
    for engine, i, v, _ in crashes:
        key = engine
        if key in seen:
            continue
        seen.add(key)
        v = dict(v, engine_host=engine, property=prop, cflags=list(ASAN_CFLAGS), sanitizer_reports=reports[:3])
        rep.violation("sanitizer abort or crash in %s workload (run %s): %s" % (engine, i, (reports[0][:200].replace("\n", " ") if reports else json.dumps(v.get("detail")))),
                      dict(v, seed=seed, run_index=i))
    rep.extra["clock"] = "none"
    return rep.finish()


# --------------------------------------------------------------------------
# C39: build-configuration cells

C39_CELLS = [
    {"cell": "cplus", "cplus": True, "cflags": ()},
    {"cell": "O2", "cflags": ("-O2",)},
    {"cell": "O3_cplus", "cplus": True, "cflags": ("-O3",)},
    {"cell": "no_pylong_internals", "cflags": ("-DCYTHON_USE_PYLONG_INTERNALS=0",)},
    {"cell": "no_unicode_internals", "cflags": ("-DCYTHON_USE_UNICODE_INTERNALS=0",)},
    {"cell": "no_vectorcall", "cflags": ("-DCYTHON_VECTORCALL=0",)},
    {"cell": "avoid_borrowed_refs", "cflags": ("-DCYTHON_AVOID_BORROWED_REFS=1",)},
    {"cell": "no_safe_macros", "cflags": ("-DCYTHON_ASSUME_SAFE_MACROS=0",)},
    {"cell": "no_type_slots", "cflags": ("-DCYTHON_USE_TYPE_SLOTS=0",)},
    {"cell": "limited_api", "cflags": ("-DCYTHON_LIMITED_API=1", "-DPy_LIMITED_API=0x030C0000")},
    {"cell": "compress_strings_0", "cflags": ("-DCYTHON_COMPRESS_STRINGS=0",)},
    {"cell": "compress_strings_1", "cflags": ("-DCYTHON_COMPRESS_STRINGS=1",)},
    {"cell": "compress_strings_2", "cflags": ("-DCYTHON_COMPRESS_STRINGS=2",)},
    {"cell": "no_binding", "cflags": (), "directives": {"binding": False}},
    {"cell": "no_optimize", "cflags": (), "directives": {"optimize.use_switch": False, "optimize.unpack_method_calls": False}},
    {"cell": "no_always_allow_keywords", "cflags": (), "directives": {"always_allow_keywords": False}},
    {"cell": "no_auto_pickle", "cflags": (), "directives": {"auto_pickle": False}},
    {"cell": "O2_no_pylong_no_vectorcall", "cflags": ("-O2", "-DCYTHON_USE_PYLONG_INTERNALS=0", "-DCYTHON_VECTORCALL=0")},
]


def _baseline_e3(v):
    name = "wl39base_" + core.digest(v["src"])[:10]
    so = build.build_ext(name, v["src"], ".py")
    st, r = core.run_one_forked(e3_gen.run_single, {"name": name, "src": v["src"], "so": so}, v["history"], timeout=60)
    return st == "crash" or (st == "ok" and r is not None)


def _baseline_e4(v):
    name = "wl22_39base_" + core.digest(v["src"])[:10]
    so = build.build_ext(name, v["src"], ".py")
    st, r = core.run_one_forked(e4_exc.run_single, {"name": name, "src": v["src"], "so": so, "nfuncs": 99}, v["func"], v["arg"], v["plan"], "C22", timeout=60)
    return st == "crash" or (st == "ok" and r is not None)


def check_C39(tier):
    prop = "C39"
    seed = core.env_seed()
    core.stage()
    from . import e5_refs, e6_loops, e3_async
    rep = core.Report(prop, "rider:E3-E6 under build-configuration cells", tier, seed)
    rep.rule = ("the seeded workloads, histories and fault plans of E3 (generators), E4 (exception nests), E5 (refcount fault sweep) and E6 (loops) rebuilt in seeded cells of the "
                "build matrix {C++, -O2/-O3, CYTHON_USE_PYLONG_INTERNALS=0, CYTHON_USE_UNICODE_INTERNALS=0, CYTHON_VECTORCALL=0, CYTHON_AVOID_BORROWED_REFS=1, "
                "CYTHON_ASSUME_SAFE_MACROS=0, CYTHON_USE_TYPE_SLOTS=0, CYTHON_LIMITED_API, CYTHON_COMPRESS_STRINGS 0/1/2, binding, optimize.*, always_allow_keywords, auto_pickle, "
                "one combined cell}; for a fixed run seed the trace must equal the CPython model's in every cell (hence be identical across cells). A divergence that also occurs in "
                "the default build is the host property's business and only counted. quick: C++ + 2 seeded cells; thorough: all cells")
    rep.components = {"real": ["generated C compiled under each configuration cell", "Cython/Utility/ModuleSetupCode.c feature macros", "g++ for the C++ cells"],
                      "stub": ["as in the host engines"]}
    rep.quarantined = ["F21: in the limited_api cell the abandonment events (del / final-del / asyncgen finalizer) of E3 histories are not compared"]
    rep.assumptions = ["rider: only the simulated workloads are compared across cells", "a workload that does not build in a cell (e.g. Limited API) is recorded and dropped, not alarmed"]
    budget = core.env_budget(110 if tier == "quick" else 1800)
    rng = core.rng_for(prop + ":cells", seed, 0)
    if tier == "quick":
        cells = [C39_CELLS[0]] + rng.sample(C39_CELLS[1:], 2)
    elif budget < 1500:
        # every cell costs 1-2 minutes of builds before its first run: with a small budget take a seeded subset
        cells = [C39_CELLS[0]] + rng.sample(C39_CELLS[1:], max(2, min(len(C39_CELLS) - 1, int(budget // 150))))
    else:
        cells = list(C39_CELLS)
    per_cell = budget / len(cells)
    found = []
    for c in cells:
        tag = "c39" + c["cell"]
        cflags, directives, cplus = tuple(c.get("cflags", ())), c.get("directives"), c.get("cplus", False)
        rep.probes["cell:" + c["cell"]] = 1
        t_end = time.time() + per_cell
        # build with cplus needs the flag threaded through build_modules: done via a small wrapper around build.build_ext
        orig = build.build_ext

        def patched(name, src, ext=".py", directives=None, cflags=(), cplus=False, **kw):
            return orig(name, src, ext, directives=directives, cflags=cflags, cplus=cplus or c.get("cplus", False), **kw)
        build.build_ext = patched
        try:
            viol3, mods3 = e3_gen.explore(rep, seed, tier, tag, cflags=cflags, directives=directives, budget=per_cell * 0.3,
                                          nruns=320 if tier == "quick" else 3200, nmods=2 if tier == "quick" else 4, prop=prop,
                                          extra_cfg={"no_abandon_compare": True} if c["cell"] == "limited_api" else None)
            viol4, mods4, cfg4 = e4_exc.explore(rep, prop, seed, tier, tag, cflags=cflags, directives=directives, budget=per_cell * 0.3,
                                                nmods=2 if tier == "quick" else 4, extra_cfg={"single_cap": 30, "nmulti": 20})
            viol5, mods5, cfg5 = e5_refs.explore(rep, seed, tier, tag, cflags=cflags, budget=per_cell * 0.2, nmods=2 if tier == "quick" else 4, prop=prop)
            from . import e3_async
            violb, modsb, cfgb = e3_async.explore(rep, prop, seed, tier, tag, cflags=cflags, directives=directives, budget=per_cell * 0.08,
                                                  nmods=2 if tier == "quick" else 4, nruns=64 if tier == "quick" else 640)
            try:
                mods6 = e6_loops.build_mods([{"cell": tag, "cflags": cflags}], tag="")
            except core.HarnessError as e:
                mods6 = None
                rep.probes["workload_modules_not_built"] = rep.probes.get("workload_modules_not_built", 0) + 1
        finally:
            build.build_ext = orig
        if rep.harness_errors and all("no workload module could be built" in str(h) for h in rep.harness_errors):
            rep.probes["cells_where_nothing_builds:" + c["cell"]] = 1
            rep.harness_errors = []
        for i, v in viol3:
            found.append((c["cell"], "E3", i, v))
        for i, v in viol4:
            found.append((c["cell"], "E4", i, v))
        for i, v in viol5:
            found.append((c["cell"], "E5", i, v))
        for i, v in violb:
            found.append((c["cell"], "E3b", i, v))
        if mods6:
            cfg6 = {"modules": mods6, "cases_per_run": 200, "case_timeout_s": 120}
            for i, r in core.run_forked(e6_loops.one_run, prop, seed, range(160 if tier == "quick" else 1600), cfg6, deadline=time.time() + per_cell * 0.2):
                if "crash" in r:
                    found.append((c["cell"], "E6", i, {"klass": "crash", "detail": {"signal": r["crash"]}}))
                elif "harness_error" in r:
                    rep.harness_errors.append(r["harness_error"])
                else:
                    v = r.pop("violation", None)
                    rep.absorb(r)
                    if v:
                        found.append((c["cell"], "E6", i, v))
    # E11 typed .pyx family: no CPython model exists, so each cell's recorded traces are compared with the default build's
    from . import e11_pyx
    n11 = 2 if tier == "quick" else 4
    e11_budget = max(20.0, budget * 0.12)

    def _records(tag, cflags=(), directives=None, cplus=False, b=20):
        sub = core.Report(prop, "x", tier, seed)
        viol, mods, cfg, allres = e11_pyx.explore(sub, prop, seed, "quick", tag, "record", cflags=cflags, directives=directives, cplus=cplus, budget=b, nmods=n11)
        crashes = [(i, v) for i, v in viol if v["klass"] == "crash"]
        return sub, {i: r.get("records") for i, r in allres}, crashes, mods
    sub0, rec0, crash0, mods0 = _records("c39default", b=e11_budget)
    if not rec0:
        rep.probes["e11_default_cell_not_built"] = 1
    for c in (cells if rec0 else []):
        subc, recc, crashc, modsc = _records("c39" + c["cell"], tuple(c.get("cflags", ())), c.get("directives"), c.get("cplus", False), b=e11_budget)
        if not recc and not crashc:
            rep.probes["e11_not_built_in_cell:" + c["cell"]] = 1
            continue
        rep.evaluations += subc.evaluations
        rep.nontrivial_digests |= subc.nontrivial_digests
        rep.add_counts(rep.fault_counts, subc.fault_counts)
        rep.probes["e11_runs_compared_with_default_build"] = rep.probes.get("e11_runs_compared_with_default_build", 0) + len(set(recc) & set(rec0))
        for i, v in crashc:
            if not any(i == j for j, _ in crash0):
                rep.violation("typed .pyx workload crashed in build cell %s (run %s), not in the default build" % (c["cell"], i),
                              dict(v, cell=c["cell"], engine_host="E11", property=prop, seed=seed, run_index=i))
                break
        done = False
        for i in sorted(set(recc) & set(rec0)):
            a, b_ = rec0[i], recc[i]
            if a is None or b_ is None:
                continue
            for x, y in zip(a, b_):
                if x[2] != y[2]:
                    ms = modsc[i % len(modsc)]
                    rep.violation("typed .pyx workload behaves differently in build cell %s than in the default build (run %s): %s vs %s" % (c["cell"], i, json.dumps(x[3])[:120], json.dumps(y[3])[:120]),
                                  {"klass": "e11-trace-differs-between-cells", "cell": c["cell"], "engine_host": "E11", "family": "E11", "property": prop, "seed": seed, "run_index": i,
                                   "src": ms["src"], "meta": ms["meta"], "func": (i // len(modsc)) % ms["nfuncs"], "arg": x[0], "plan": x[1],
                                   "detail": {"default": x[3], "cell": y[3]}})
                    done = True
                    break
            if done:
                break
    # enumerated corpus (integer arithmetic with constants at the PyLong digit boundaries, slicing/indexing around the bounds) in ALL cells
    from . import rider_corpus
    from concurrent.futures import ThreadPoolExecutor
    all_cells = [{"cell": "default", "cflags": ()}] + list(C39_CELLS)

    def _b(c):
        try:
            return rider_corpus.build_cell("c39" + c["cell"], c.get("cflags", ()), c.get("directives"), c.get("cplus", False))
        except core.HarnessError as e:
            return e
    with ThreadPoolExecutor(max_workers=len(all_cells)) as ex:
        built = list(ex.map(_b, all_cells))
    outs = {}
    for c, b in zip(all_cells, built):
        if isinstance(b, Exception):
            rep.probes["corpus_not_built:" + c["cell"]] = 1
            continue
        st, r = core.run_one_forked(rider_corpus.run_all, b[1], b[0], seed, timeout=300)
        if st != "ok":
            rep.violation("corpus run crashed in build cell %s: %s" % (c["cell"], r), {"klass": "corpus-crash", "cell": c["cell"], "detail": {"status": st, "info": r}, "property": prop, "corpus": True, "seed": seed})
            continue
        outs[c["cell"]] = r
        rep.evaluations += len(r)
        rep.probes["corpus_cases_per_cell"] = len(r)
    rep.probes["corpus_cells_compared"] = max(0, len(outs) - 1)
    if "default" in outs:
        m = rider_corpus.model_all(seed)
        d0 = rider_corpus.first_diff(m, outs["default"], seed)
        if d0:
            rep.probes["corpus_default_build_differs_from_python_(not_config_specific)"] = 1
        for cell, r in outs.items():
            if cell == "default":
                continue
            d = rider_corpus.first_diff(outs["default"], r, seed)
            if d:
                rep.violation("corpus result differs between the default build and cell %s: %s" % (cell, json.dumps(d)[:300]),
                              {"klass": "corpus-differs-between-cells", "cell": cell, "detail": dict(d, a_is="default", b_is=cell,
                               python_says=(m[d["index"]] if d["index"] < len(m) else None)), "property": prop, "corpus": True, "seed": seed})
                break
    core.replay_known(prop, replay, rep)
    rep.determinism = {"seeds": 0, "mismatches": 0, "note": "host engines' self-checks apply"}
    seen = set()
    for cell, eng, i, v in found:
        key = (cell, eng, v["klass"])
        if key in seen:
            continue
        seen.add(key)
        also_baseline = None
        try:
            if eng == "E3" and v.get("history") is not None:
                also_baseline = _baseline_e3(v)
            elif eng == "E4" and v.get("func") is not None:
                also_baseline = _baseline_e4(v)
            elif eng == "E3b" and v.get("scenario") is not None:
                name = "wl23a_39base_" + core.digest(v["src"])[:10]
                so = build.build_ext(name, v["src"], ".py")
                st, r = core.run_one_forked(e3_async.run_single, {"name": name, "src": v["src"], "so": so}, v["scenario"], timeout=60)
                also_baseline = st == "crash" or (st == "ok" and r is not None)
            elif eng == "E6" and v.get("case") is not None:
                base = e6_loops.build_mods([{"cell": "default", "cflags": ()}], tag="c39base")
                st, r = core.run_one_forked(e6_loops.run_single, base, "default", v["case"], timeout=60)
                also_baseline = st == "crash" or (st == "ok" and r is not None)
        except Exception as e:
            rep.harness_errors.append("baseline comparison failed: %r" % (e,))
            continue
        if also_baseline:
            rep.probes["divergences_also_in_default_build_(host_property)"] = rep.probes.get("divergences_also_in_default_build_(host_property)", 0) + 1
            continue
        v = dict(v, cell=cell, engine_host=eng, property=prop)
        rep.violation("behaviour differs in build cell %s (%s workload, run %s): %s %s" % (cell, eng, i, v["klass"], json.dumps(v.get("detail"))[:200]),
                      dict(v, seed=seed, run_index=i))
    rep.extra["clock"] = "none"
    rep.extra["cells_run"] = [c["cell"] for c in cells]
    return rep.finish()
