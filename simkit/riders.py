"""Riders: properties decided by re-running the simulated workloads of other
engines under a different observer or build (no workload of their own).

C45 — E3/E4 workloads compiled with profile/linetrace and CYTHON_TRACE, run
      under sys.setprofile / sys.settrace with an event-stream monitor.
C36 — E3-E6, E8 workloads rebuilt with ASan/UBSan; the same seeded histories
      and fault plans are replayed; any sanitizer abort is a violation.
C39 — E3-E6 workloads rebuilt in seeded build-configuration cells; the same
      seeds must give the model's trace in every cell.
"""
import json
import os
import subprocess
import sys
import time

from . import core, build, e3_gen, e4_exc

TRACE_DIRECTIVES = {"profile": True, "linetrace": True}
TRACE_CFLAGS = ("-DCYTHON_TRACE=1",)


def check_C45(tier):
    prop = "C45"
    seed = core.env_seed()
    core.stage()
    rep = core.Report(prop, "rider:E3+E4 under profile/trace", tier, seed)
    rep.rule = ("the generator-history workloads of E3 and the exception fault-plan workloads of E4, compiled with profile=True, linetrace=True, -DCYTHON_TRACE=1 and run under "
                "sys.setprofile (even cases) / sys.settrace (odd cases) with a monitor checked while the run proceeds: every start event of a workload function is matched by "
                "exactly one return event of the same code object, properly nested; the stack of open activations is empty at the end of each history/plan; line events "
                "occur inside the activation of their function and name a line inside its def span. Faults: the same throws, closes, abandonments and injected raises. "
                "non-trivial / distinct as in the host engines")
    rep.components = {"real": ["Cython/Utility/Profile.c event emission", "generated trace calls (put_trace_*)", "sys.setprofile / sys.settrace of CPython 3.12"],
                      "stub": ["monitor callbacks"]}
    rep.assumptions = ["equality with CPython's own event stream is not required (the statement does not ask for it)", "single thread"]
    budget = core.env_budget(70 if tier == "quick" else 900)
    viol3, mods3 = e3_gen.explore(rep, seed, tier, "trace", cflags=TRACE_CFLAGS, directives=TRACE_DIRECTIVES, budget=budget * 0.5,
                                  nruns=600 if tier == "quick" else None, extra_cfg={"observer": True}, nmods=3 if tier == "quick" else 8, prop=prop)
    viol4, mods4, cfg4 = e4_exc.explore(rep, prop, seed, tier, "trace", cflags=TRACE_CFLAGS, directives=TRACE_DIRECTIVES, budget=budget * 0.5,
                                        extra_cfg={"observer": True, "single_cap": 20, "nmulti": 10}, nmods=3 if tier == "quick" else 8)
    core.replay_known(prop, replay, rep)
    rep.determinism = {"seeds": 0, "mismatches": 0, "note": "host engines' self-checks apply (C23, C22)"}
    seen = set()
    for i, v in list(viol3) + list(viol4):
        if v["klass"] in seen:
            continue
        seen.add(v["klass"])
        if v["klass"] == "crash":
            rep.harness_errors.append("a traced workload crashed a worker (run %s): %s" % (i, json.dumps(v.get("detail"))))
            continue
        v = dict(v, property=prop, cflags=list(TRACE_CFLAGS), directives=TRACE_DIRECTIVES)
        rep.violation("%s (run %s): %s" % (v["klass"], i, json.dumps(v["detail"])[:300]), dict(v, seed=seed, run_index=i))
    rep.extra["clock"] = "none"
    return rep.finish()


def _replay_e3_traced(ms, h, mode):
    from . import tracemon
    sut, model, sm = e3_gen.load_pair(ms)
    f19 = () if os.environ.get("SIMKIT_RAW_REPLAY") else tracemon.funcs_returning_inside_try_finally(ms["src"])
    mon = tracemon.Monitor(mode, ms["name"] + ".py", tracemon.function_spans(ms["src"]), f19)
    mon.install()
    try:
        e3_gen.run_history(sut, h, sm)
    finally:
        p = mon.finish()
    return p or None


def _replay_e4_traced(ms, fi, arg, plan, mode):
    from . import tracemon
    pair = e4_exc.load_pair(ms)
    f19 = () if os.environ.get("SIMKIT_RAW_REPLAY") else tracemon.funcs_returning_inside_try_finally(ms["src"])
    mon = tracemon.Monitor(mode, ms["name"] + ".py", tracemon.function_spans(ms["src"]), f19)
    mon.install()
    try:
        e4_exc.run_case(pair[0], fi, arg, plan, pair[2])
    finally:
        p = mon.finish()
    return p or None


def replay(payload):
    core.stage()
    prop = payload["property"]
    if prop == "C45":
        name = "wit45_" + core.digest(payload["src"])[:8]
        so = build.build_ext(name, payload["src"], ".py", cflags=TRACE_CFLAGS, directives=TRACE_DIRECTIVES)
        ms = {"name": name, "src": payload["src"], "so": so, "nfuncs": 99}
        if payload.get("raw"):
            os.environ["SIMKIT_RAW_REPLAY"] = "1"
        if "history" in payload:
            st, r = core.run_one_forked(_replay_e3_traced, ms, payload["history"], payload.get("observer_mode", "profile"), timeout=60)
        else:
            st, r = core.run_one_forked(_replay_e4_traced, ms, payload["func"], payload["arg"], payload["plan"], payload.get("observer_mode", "profile"), timeout=60)
        os.environ.pop("SIMKIT_RAW_REPLAY", None)
        print("replayed: %s %s" % (st, json.dumps(r)[:500] if r is not None else None))
        return st == "crash" or (st == "ok" and r is not None)
    raise core.HarnessError("no replay for %s here" % prop)
