"""Exec'd compile server with its own PYTHONHASHSEED (fork cannot change the
hash secret).  JSON lines on stdin, replies on a private fd; stdout/stderr of
the compiler go to /dev/null.  Started under `setarch -R` so addresses are a
function of the command history, not of ASLR."""
import importlib
import json
import os
import subprocess
import sys
import traceback


def main():
    out = os.fdopen(os.dup(1), "w")
    devnull = os.open(os.devnull, os.O_WRONLY)
    os.dup2(devnull, 1)
    os.dup2(devnull, 2)
    from simkit import procsim
    for line in sys.stdin:
        cmd = json.loads(line)
        if cmd.get("cmd") == "exit":
            break
        try:
            if cmd.get("cwd"):
                os.chdir(cmd["cwd"])
            if cmd.get("reset", True):
                procsim.child_reset()
            mod = importlib.import_module(cmd["module"])
            res = {"ok": getattr(mod, cmd["fn"])(*cmd.get("args", []))}
        except BaseException as e:
            if isinstance(e, (SystemExit, KeyboardInterrupt)):
                raise
            res = {"error": type(e).__name__, "msg": str(e)[:300], "tb": traceback.format_exc()[-1500:]}
        out.write(json.dumps(res) + "\n")
        out.flush()


class Server:
    def __init__(self, hashseed, stage, verif):
        env = dict(os.environ)
        env["PYTHONHASHSEED"] = str(hashseed)
        env["PYTHONPATH"] = stage + os.pathsep + verif
        env["PYTHONDONTWRITEBYTECODE"] = "1"
        cmd = [sys.executable, "-m", "simkit.hsrv"]
        import shutil
        if shutil.which("setarch"):
            cmd = ["setarch", "x86_64", "-R"] + cmd
        self.p = subprocess.Popen(cmd, stdin=subprocess.PIPE, stdout=subprocess.PIPE, env=env, text=True, cwd=verif)
        self.owner = os.getpid()

    def call(self, module, fn, args=(), cwd=None, reset=True):
        self.p.stdin.write(json.dumps({"cmd": "call", "module": module, "fn": fn, "args": list(args), "cwd": cwd, "reset": reset}) + "\n")
        self.p.stdin.flush()
        line = self.p.stdout.readline()
        if not line:
            return {"lost": "eof"}
        return json.loads(line)

    def close(self):
        try:
            self.p.stdin.close()
            self.p.kill()
            self.p.wait()
        except Exception:
            pass


_servers = {}


def get(hashseed, stage, verif):
    key = (hashseed, stage)
    s = _servers.get(key)
    if s is not None and (s.owner != os.getpid() or s.p.poll() is not None):
        s = None
    if s is None:
        s = _servers[key] = Server(hashseed, stage, verif)
    return s


if __name__ == "__main__":
    main()
