"""Seam library imported by workload modules, both when compiled by Cython
(system under test) and when exec'd by CPython (the model).  All state is
process-global and reset per run; nothing here draws random numbers or reads
clocks: what happens at a probe is dictated by the run's plan."""
import sys

LOG = []
PLAN = {}
COUNT = [0]
LIVE = [0]          # live tracked objects (conservation checks)
CREATED = [0]
CURRENT = [None]    # object under test (for re-entry actions)
EPOCH = [0]         # incremented by reset(): finalizers of delegate objects that outlive their run must not log into the next one


class E1(Exception):
    pass


class E2(Exception):
    pass


class E3(E1):
    pass


class Inj(BaseException):
    pass


def reset(plan=None):
    del LOG[:]
    PLAN.clear()
    if plan:
        PLAN.update(plan)
    COUNT[0] = 0
    CURRENT[0] = None
    EPOCH[0] += 1


def make_exc(name, arg):
    if name == "E1":
        return E1(arg)
    if name == "E2":
        return E2(arg)
    if name == "E3":
        return E3(arg)
    if name == "Inj":
        return Inj(arg)
    if name == "StopIteration":
        return StopIteration(arg)
    if name == "GeneratorExit":
        return GeneratorExit()
    if name == "KeyError":
        return KeyError(arg)
    if name == "EG":
        return ExceptionGroup("eg", [E1(arg), E2(arg)])
    raise ValueError(name)


def P(k):
    """Probe: log, then do what the plan says for this occurrence."""
    n = COUNT[0]
    COUNT[0] = n + 1
    LOG.append(("P", k))
    act = PLAN.get(n)
    if act is None:
        return None
    kind = act[0]
    if kind == "raise":
        LOG.append(("inject", n, act[1]))
        raise make_exc(act[1], n)
    if kind == "reenter":
        obj = CURRENT[0]
        LOG.append(("reenter", n))
        try:
            if act[1] == "next":
                r = next(obj)
            elif act[1] == "send":
                r = obj.send(1)
            elif act[1] == "throw":
                r = obj.throw(E2(n))
            else:
                r = obj.close()
            LOG.append(("reenter-result", norm(r)))
        except BaseException as e:
            LOG.append(("reenter-raised", describe_exc(e)))
        return None
    if kind == "xthread":
        # the same re-entrant resume, but issued by a second real thread while this one is parked inside the body
        # (baton passing: the helper runs to completion before the body goes on, so the schedule is fixed)
        import threading
        obj = CURRENT[0]
        LOG.append(("xthread", n))
        box = []

        def helper():
            try:
                if act[1] == "next":
                    r = next(obj)
                elif act[1] == "send":
                    r = obj.send(1)
                elif act[1] == "throw":
                    r = obj.throw(E2(n))
                else:
                    r = obj.close()
                box.append(("xthread-result", norm(r)))
            except BaseException as e:
                box.append(("xthread-raised", describe_exc(e)))
        t = threading.Thread(target=helper)
        t.start()
        t.join()
        LOG.extend(box)
        return None
    if kind == "ret":
        return act[1]
    return None


def exc_chain(e, depth=4):
    if e is None or depth == 0:
        return None
    return (type(e).__name__, norm(getattr(e, "args", ())),
            exc_chain(e.__cause__, depth - 1), exc_chain(e.__context__, depth - 1), bool(e.__suppress_context__))


def X(k):
    """Log the exception currently being handled (type, args, cause/context chain)."""
    e = sys.exc_info()[1]
    LOG.append(("X", k, exc_chain(e)))


USER_EXC = ("E1", "E2", "E3", "Inj", "StopIteration", "GeneratorExit", "StopAsyncIteration", "KeyError", "ExceptionGroup")


def norm(v):
    if isinstance(v, (int, str, bytes, float, type(None), bool)):
        return v
    if isinstance(v, tuple):
        return tuple(norm(x) for x in v)
    if isinstance(v, list):
        return [norm(x) for x in v]
    if isinstance(v, BaseException):
        return ("exc",) + describe_exc(v)
    return "<%s>" % type(v).__name__


def describe_exc(e):
    n = type(e).__name__
    if n in USER_EXC:
        return (n, norm(e.args))
    return (n,)     # message wording of builtin errors is not part of the compared trace


# --------------------------------------------------------------------------
# things to delegate to

class It:
    """Plain iterator with optional send/throw/close, all logging."""

    def __init__(self, tag, n, has_send=False, has_throw=False, has_close=False, throw_mode="reraise"):
        self.tag, self.n, self.i = tag, n, 0
        self.throw_mode = throw_mode
        if has_send:
            self.send = self._send
        if has_throw:
            self.throw = self._throw
        if has_close:
            self.close = self._close

    def __iter__(self):
        return self

    def __next__(self):
        LOG.append(("it.next", self.tag, self.i))
        if self.i >= self.n:
            raise StopIteration(("itret", self.tag))
        self.i += 1
        return ("it", self.tag, self.i)

    def _send(self, v):
        LOG.append(("it.send", self.tag, norm(v)))
        if self.i >= self.n:
            raise StopIteration(("itsendret", self.tag, norm(v)))
        self.i += 1
        return ("itsent", self.tag, self.i)

    def _throw(self, typ, val=None, tb=None):
        LOG.append(("it.throw", self.tag, typ.__name__ if isinstance(typ, type) else type(typ).__name__))
        if self.throw_mode == "swallow":
            return ("itswallowed", self.tag)
        if self.throw_mode == "stop":
            raise StopIteration(("itthrowret", self.tag))
        if isinstance(typ, type):
            raise typ() if val is None else (val if isinstance(val, BaseException) else typ(val))
        raise typ

    def _close(self):
        LOG.append(("it.close", self.tag))


def pygen(tag, n):
    """An uncompiled Python generator (delegation target)."""
    LOG.append(("pygen.start", tag))
    ep = EPOCH[0]
    try:
        for i in range(n):
            try:
                x = yield ("pg", tag, i)
                LOG.append(("pygen.got", tag, norm(x)))
            except E1 as e:
                LOG.append(("pygen.caught", tag, norm(e.args)))
                yield ("pg-caught", tag)
    finally:
        if ep == EPOCH[0]:
            LOG.append(("pygen.finally", tag))
    return ("pgret", tag)


class Aw:
    """Scripted awaitable: yields n values to the driver, then returns a result."""

    def __init__(self, tag, n, mode="ok"):
        self.tag, self.n, self.mode = tag, n, mode

    def __await__(self):
        LOG.append(("aw.start", self.tag))
        ep = EPOCH[0]
        try:
            for i in range(self.n):
                x = yield ("aw", self.tag, i)
                LOG.append(("aw.got", self.tag, norm(x)))
            if self.mode == "raise":
                raise E2(("aw", self.tag))
        finally:
            if ep == EPOCH[0]:
                LOG.append(("aw.finally", self.tag))
        return ("awret", self.tag)


class CM:
    def __init__(self, tag, suppress=False, enter_raises=False, exit_raises=False):
        self.tag, self.suppress, self.enter_raises, self.exit_raises = tag, suppress, enter_raises, exit_raises

    def __enter__(self):
        LOG.append(("cm.enter", self.tag))
        if self.enter_raises:
            raise E2(("enter", self.tag))
        return self.tag

    def __exit__(self, t, v, tb):
        LOG.append(("cm.exit", self.tag, t.__name__ if t else None))
        if self.exit_raises:
            raise E2(("exit", self.tag))
        return self.suppress


class Tracked:
    """Object whose lifetime is counted."""

    def __init__(self, tag=0):
        self.tag = tag
        LIVE[0] += 1
        CREATED[0] += 1

    def __del__(self):
        LIVE[0] -= 1


class Buf(Tracked):
    """Buffer exporter (PEP 688) whose acquisition is a fallible call: the probe inside __buffer__ may raise, or make it
    export a buffer of the wrong item type; releases are logged."""

    def __init__(self, tag=0):
        Tracked.__init__(self, tag)
        import array
        self.data = array.array("i", [tag, 2, 3, 4])

    def __buffer__(self, flags):
        r = P(self.tag)
        if r == "s":
            return memoryview(b"abcdefgh")          # wrong item format for an int[:] view
        if r == 2.5:
            raise BufferError(self.tag)
        return memoryview(self.data)

    def __release_buffer__(self, view):
        LOG.append(("buf.release", self.tag))
        view.release()
