"""Seam for the loop engine (E6): the hook called from compiled loop bodies is the
simulator's actor.  What it does at its n-th call is dictated by the script."""

LOG = []
SCRIPT = {}
COUNT = [0]
TARGET = [None]      # the container being iterated (for mutation actions)
FRESH = [1000]


class LE(Exception):
    pass


class Runaway(Exception):
    """the loop visited far more items than any model run can (step budget of the simulated loop body)"""


def reset(script, target):
    del LOG[:]
    SCRIPT.clear()
    SCRIPT.update(script)
    COUNT[0] = 0
    TARGET[0] = target
    FRESH[0] = 1000


def fresh():
    FRESH[0] += 1
    return FRESH[0]


def nrm(x):
    if isinstance(x, (int, str, bytes, type(None), float)):
        return x
    if isinstance(x, tuple):
        return tuple(nrm(y) for y in x)
    return "<%s>" % type(x).__name__


def hook(site, item):
    """returns 0 (go on), 1 (break), 2 (continue); may raise; may mutate the container first"""
    if site >= 100:
        LOG.append(("site", site, nrm(item)))
        return 0
    n = COUNT[0]
    COUNT[0] = n + 1
    if n > 600:
        raise Runaway(n)
    LOG.append(("visit", nrm(item)))
    act = SCRIPT.get(n)
    if act is None:
        return 0
    kind = act[0]
    t = TARGET[0]
    if kind == "break":
        return 1
    if kind == "continue":
        return 2
    if kind == "raise":
        raise LE(n)
    LOG.append(("mutate", kind))
    if isinstance(t, dict):
        keys = list(t)
        if kind == "insert":
            t[fresh()] = 0
        elif kind == "burst":
            for _ in range(40):
                t[fresh()] = 0
        elif kind == "del_first" and keys:
            del t[keys[0]]
        elif kind == "del_last" and keys:
            del t[keys[-1]]
        elif kind == "replace_value" and keys:
            t[keys[len(keys) // 2]] = fresh()
        elif kind == "clear":
            t.clear()
        elif kind == "same_size" and keys:
            del t[keys[-1]]
            t[fresh()] = 0
        elif kind == "del_and_reinsert" and keys:
            v = t.pop(keys[0])
            t[keys[0]] = v
    elif isinstance(t, set):
        items = sorted(t, key=repr)
        if kind in ("insert",):
            t.add(fresh())
        elif kind == "burst":
            for _ in range(40):
                t.add(fresh())
        elif kind in ("del_first", "del_last") and items:
            t.discard(items[0 if kind == "del_first" else -1])
        elif kind == "clear":
            t.clear()
        elif kind == "same_size" and items:
            t.discard(items[-1])
            t.add(fresh())
    elif isinstance(t, list):
        if kind == "insert":
            t.append(fresh())
        elif kind == "burst":
            t.extend(fresh() for _ in range(5))
        elif kind == "del_first" and t:
            del t[0]
        elif kind == "del_last" and t:
            t.pop()
        elif kind == "replace_value" and t:
            t[len(t) // 2] = fresh()
        elif kind == "clear":
            del t[:]
        elif kind == "insert_front":
            t.insert(0, fresh())
    elif isinstance(t, bytearray):
        if kind == "insert":
            t.append(65)
        elif kind == "del_last" and t:
            t.pop()
        elif kind == "clear":
            del t[:]
        elif kind == "del_tail":
            del t[len(t) // 2:]
        elif kind == "burst":
            t.extend(b"Z" * 40)
    return 0


def rebind(cur, n_alt):
    """used by loops that rebind the iterated name inside the body"""
    LOG.append(("rebind",))
    return n_alt
