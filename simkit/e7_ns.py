"""E7 namespace-history — C26 (global/builtin lookups see the current binding)
and C27 (cpdef calls reach the most-derived override).  Sequential histories
against per-call-site caches, in two build cells: the default for this Python
and -DCYTHON_USE_DICT_VERSIONS=1 (the cached lookup paths that are the
default before 3.12), plus Options.cache_builtins on/off for C26.
"""
import builtins
import json
import os
import sys
import time
import types

from . import core, build

ENGINE = "E7-namespace-history"
SEAMDIR = os.path.dirname(os.path.abspath(__file__))

NAMES = ["G0", "G1", "G2"]
SHADOW = ["len", "abs", "repr"]          # builtin names that the module namespace may shadow
BI_MUT = ["ord", "chr"]                  # builtins mutated in the builtins module itself (cache_builtins=False cell only)
BI_UNDECL = ["sorted", "round"]          # builtins the source never binds and that have no C-level declaration in Cython: with builtin caching off
                                         # they are looked up at run time, module namespace first (ord/chr are bound to their builtin entries at compile time)
BI_GLOBALS = ["G0", "G1", "G2", "abs"]   # declared module globals: a read falls back to the builtins module at run time in every cell

C26_SRC = '''
def _decl():
    # never called: declares the names as module globals
    global G0, G1, G2, len, abs, repr
    G0 = G1 = G2 = len = abs = repr = None

def r_G0_a(): return G0
def r_G0_b(): return G0
def r_G0_twice(): return (G0, G0)
def r_G1_a(): return G1
def r_G1_b():
    x = G1
    return x
def r_G2_a(): return G2
def r_len(): return len
def r_len2(): return len
def r_abs(): return abs
def r_repr(): return repr
def r_ord(): return ord
def r_chr(): return chr
def r_sorted(): return sorted
def r_round(): return round
def r_mix(): return (G0, len, G1)
def r_closure():
    def inner():
        return (G0, G2)
    return inner()
r_lambda = lambda: (G1, abs)
class _K:
    def m(self):
        return (G0, repr)
    @staticmethod
    def s():
        return G2
def r_method(): return _K().m()
def r_static(): return _K.s()
def r_gen(): return list(G1 for _ in (1, 2))
def r_comp(): return [G0 for _ in (1,)] + [len]
def r_default(x=None): return G2 if x is None else x
def r_try():
    try:
        return G1
    finally:
        pass

def _decl2():
    global GE, KeyError
    GE = KeyError = None
# global names read as 'except' patterns, i.e. while an exception is in flight (GE: plain global; KeyError: a builtin the
# module may shadow, so a read that misses the module dict falls back to the builtins module)
def r_exc_GE():
    try:
        raise LookupError(1)
    except GE:
        return "GE"
    except Exception:
        return "other"
def r_exc_KeyError():
    try:
        raise LookupError(1)
    except KeyError:
        return "KeyError"
    except Exception as e:
        return ("other", type(e).__name__)
def r_exc_tuple():
    try:
        raise ValueError(1)
    except (GE, KeyError):
        return "tuple"
    except Exception:
        return "other"
def r_exc_nested():
    try:
        try:
            raise IndexError(2)
        finally:
            x = KeyError
    except KeyError:
        return ("KeyError", x is KeyError)
    except Exception:
        return ("other", x is KeyError)
def w_GE(v):
    global GE
    GE = v
def w_KeyError(v):
    global KeyError
    KeyError = v
def d_GE():
    global GE
    del GE
def d_KeyError():
    global KeyError
    del KeyError

def w_G0(v):
    global G0
    G0 = v
def w_G1(v):
    global G1
    G1 = v
def w_G2(v):
    global G2
    G2 = v
def w_len(v):
    global len
    len = v
def w_abs(v):
    global abs
    abs = v
def w_repr(v):
    global repr
    repr = v
def d_G0():
    global G0
    del G0
def d_G1():
    global G1
    del G1
def d_G2():
    global G2
    del G2
def d_len():
    global len
    del len
def d_abs():
    global abs
    del abs
def d_repr():
    global repr
    del repr
'''

READERS = ["r_G0_a", "r_G0_b", "r_G0_twice", "r_G1_a", "r_G1_b", "r_G2_a", "r_len", "r_len2", "r_abs", "r_repr", "r_mix", "r_ord", "r_chr", "r_sorted", "r_round",
           "r_closure", "r_lambda", "r_method", "r_static", "r_gen", "r_comp", "r_default", "r_try",
           "r_exc_GE", "r_exc_KeyError", "r_exc_tuple", "r_exc_nested"]
EXC_NAMES = ["GE", "KeyError"]
EXC_VALUES = [KeyError, LookupError, ValueError, IndexError, Exception, ArithmeticError, OSError]      # classes only: a tuple-valued global inside a tuple pattern trips an assert in __Pyx_PyErr_GivenExceptionMatches2 (exception matching, not name lookup; see DESIGN 0.3)


def gen_history_c26(rng, maxlen, builtins_mutable):
    ops = []
    n = rng.randint(2, maxlen)
    counter = [100]
    for _ in range(n):
        r = rng.random()
        if r < 0.40:
            ops.append(["r", rng.choice(READERS)])
        elif r < 0.62 and rng.random() < 0.2:
            ops.append(["we", rng.choice(EXC_NAMES), rng.choice(["compiled", "setattr", "dict"]), rng.randrange(len(EXC_VALUES))])
        elif r < 0.62:
            counter[0] += 1
            ops.append(["w", rng.choice(NAMES + SHADOW), rng.choice(["compiled", "setattr", "dict"]), counter[0]])
        elif r < 0.78:
            ops.append(["d", rng.choice(NAMES + SHADOW + EXC_NAMES + EXC_NAMES), rng.choice(["compiled", "delattr", "dictpop"])])
        elif r < 0.86:
            ops.append(["grow", rng.randint(1, 40)])
        elif r < 0.90:
            ops.append(["shrink"])
        elif builtins_mutable and r < 0.94:
            counter[0] += 1
            q = rng.random()
            if q < 0.40:
                ops.append(["bw", rng.choice(BI_MUT + BI_UNDECL), counter[0]])
            elif q < 0.60:
                ops.append(["brestore", rng.choice(BI_MUT + BI_UNDECL)])
            elif q < 0.85:
                # shadow a builtin that the module source never binds, through the module namespace (setattr / __dict__):
                # with builtin caching off the read must find it there before falling back to the builtins module
                ops.append(["w", rng.choice(BI_UNDECL), rng.choice(["setattr", "dict"]), counter[0]])
            else:
                ops.append(["d", rng.choice(BI_UNDECL), rng.choice(["delattr", "dictpop"])])
        elif r < 0.985:
            # the builtins module as fallback namespace of declared globals (valid with and without cache_builtins)
            counter[0] += 1
            ops.append(["bw", rng.choice(BI_GLOBALS), counter[0]] if rng.random() < 0.65 else ["brestore", rng.choice(BI_GLOBALS)])
        else:
            ops.append(["r", rng.choice(READERS)])
    # every history ends by reading everything
    for rd in READERS:
        ops.append(["r", rd])
    return ops


def norm_val(v):
    if isinstance(v, tuple):
        return [norm_val(x) for x in v]
    if isinstance(v, (int, str, type(None))):
        return v
    if isinstance(v, Marker):
        return ["marker", v.n]
    if isinstance(v, types.BuiltinFunctionType):
        return ["builtin", v.__name__]
    return "<%s>" % type(v).__name__


class Marker:
    def __init__(self, n):
        self.n = n


def run_history_c26(mod, ops):
    """Apply ops to a fresh-state module; returns list of read outcomes."""
    saved_bi = {k: getattr(builtins, k, None) for k in BI_MUT + BI_GLOBALS + BI_UNDECL}
    # reset module state: remove the declared names and junk
    d = mod.__dict__
    for k in list(d):
        if k in NAMES or k in SHADOW or k in BI_UNDECL or k in EXC_NAMES or k.startswith("junk_"):
            del d[k]
    out = []
    junk = 0
    try:
        for op in ops:
            k = op[0]
            if k == "r":
                try:
                    out.append(["r", op[1], "value", norm_val(getattr(mod, op[1])())])
                except NameError:
                    out.append(["r", op[1], "NameError"])
                except BaseException as e:
                    out.append(["r", op[1], "raise", type(e).__name__])
            elif k in ("w", "we"):
                v = Marker(op[3]) if k == "w" else EXC_VALUES[op[3]]
                if op[2] == "compiled":
                    getattr(mod, "w_" + op[1])(v)
                elif op[2] == "setattr":
                    setattr(mod, op[1], v)
                else:
                    d[op[1]] = v
            elif k == "d":
                try:
                    if op[2] == "compiled":
                        getattr(mod, "d_" + op[1])()
                    elif op[2] == "delattr":
                        delattr(mod, op[1])
                    else:
                        d.pop(op[1])
                    out.append(["d", op[1], "ok"])
                except BaseException:
                    # deleting an unbound global: NameError in CPython, AttributeError in compiled code (not a read; recorded as raised)
                    out.append(["d", op[1], "raised"])
            elif k == "grow":
                for _ in range(op[1]):
                    junk += 1
                    d["junk_%d" % junk] = junk
            elif k == "shrink":
                for kk in [x for x in d if x.startswith("junk_")][::2]:
                    del d[kk]
            elif k == "bw":
                setattr(builtins, op[1], Marker(op[2]))
            elif k == "brestore":
                if saved_bi[op[1]] is None:
                    if hasattr(builtins, op[1]):
                        delattr(builtins, op[1])
                else:
                    setattr(builtins, op[1], saved_bi[op[1]])
    finally:
        for kk, v in saved_bi.items():
            if v is None:
                if hasattr(builtins, kk):
                    delattr(builtins, kk)
            else:
                setattr(builtins, kk, v)
    return out


_loaded = {}


def load_cells(cfg_mods):
    key = tuple(m["name"] for m in cfg_mods)
    if key not in _loaded:
        cells = []
        for ms in cfg_mods:
            sut = build.load_ext(ms["name"], ms["so"])
            cells.append((ms, sut))
        model = types.ModuleType("c26_model")
        exec(compile(C26_SRC, "c26_model.py", "exec"), model.__dict__)
        _loaded[key] = (cells, model)
    return _loaded[key]


def one_run_c26(check, seed, i, cfg):
    cells, model = load_cells(cfg["modules"])
    rng = core.rng_for(check, seed, i)
    res = {"probes": {}, "faults": {}, "n": 0, "nontrivial_digests": [], "steps": 0}
    for j in range(cfg["histories_per_run"]):
        ms, sut = cells[(i + j) % len(cells)]
        ops = gen_history_c26(rng, cfg["maxlen"], ms["builtins_mutable"])
        tm = run_history_c26(model, ops)
        ts = run_history_c26(sut, ops)
        res["n"] += 1
        res["steps"] += len(ops)
        res["probes"]["cell:" + ms["cell"]] = res["probes"].get("cell:" + ms["cell"], 0) + 1
        kinds = {o[0] for o in ops}
        for o in ops:
            if o[0] == "we":
                res["faults"]["write_exception_class:" + o[2]] = res["faults"].get("write_exception_class:" + o[2], 0) + 1
            if o[0] in ("w", "d", "bw", "brestore", "grow"):
                res["faults"][o[0] if o[0] != "w" else "w:" + o[2]] = res["faults"].get(o[0] if o[0] != "w" else "w:" + o[2], 0) + 1
        if any(e[0] == "r" and e[2] == "NameError" for e in tm):
            res["probes"]["nameerror_reads"] = res["probes"].get("nameerror_reads", 0) + 1
        if "d" in kinds and "w" in kinds:
            res["nontrivial_digests"].append(core.digest([ms["cell"], ops]))
        if tm != ts and "violation" not in res:
            k = 0
            while k < min(len(tm), len(ts)) and tm[k] == ts[k]:
                k += 1
            res["violation"] = {"klass": "read-differs-from-cpython", "detail": {"event": k, "model": tm[k:k + 1], "sut": ts[k:k + 1]},
                                "cell": ms["cell"], "ops": ops}
        if i % 500 == 0 and j == 0:
            res["sample"] = {"cell": ms["cell"], "ops": ops[:12]}
    return res


C26_CELLS = [
    {"cell": "default", "cflags": (), "options": None, "builtins_mutable": False},
    {"cell": "dict_versions", "cflags": ("-DCYTHON_USE_DICT_VERSIONS=1",), "options": None, "builtins_mutable": False},
    {"cell": "no_cache_builtins", "cflags": (), "options": {"cache_builtins": False}, "builtins_mutable": True},
    {"cell": "dict_versions+no_cache_builtins", "cflags": ("-DCYTHON_USE_DICT_VERSIONS=1",), "options": {"cache_builtins": False}, "builtins_mutable": True},
]


def build_c26():
    specs = []
    for c in C26_CELLS:
        specs.append({"name": "wl26_" + c["cell"].replace("+", "_"), "src": C26_SRC, "ext": ".py", "cflags": c["cflags"], "options": c["options"]})
    sos = build.build_many(specs)
    mods = []
    for c, sp, so in zip(C26_CELLS, specs, sos):
        if isinstance(so, Exception):
            raise core.HarnessError("C26 workload build failed (%s): %s" % (c["cell"], str(so)[-600:]))
        mods.append({"name": sp["name"], "so": so, "cell": c["cell"], "builtins_mutable": c["builtins_mutable"]})
    return mods


def run_single_c26(mods, cell, ops):
    cells, model = load_cells(mods)
    for ms, sut in cells:
        if ms["cell"] == cell:
            tm, ts = run_history_c26(model, ops), run_history_c26(sut, ops)
            if tm != ts:
                k = 0
                while k < min(len(tm), len(ts)) and tm[k] == ts[k]:
                    k += 1
                return {"event": k, "model": tm[k:k + 1], "sut": ts[k:k + 1]}
    return None


def check_C26(tier):
    prop = "C26"
    seed = core.env_seed()
    core.stage()
    rep = core.Report(prop, ENGINE, tier, seed)
    rep.rule = ("seeded histories (<= 10 ops + a final read of every call site) over a compiled module's namespace: bind (unique marker each time) / delete / re-create of "
                "declared globals via compiled code, setattr(module) and module.__dict__; shadowing and un-shadowing builtin names (len, abs, repr) through the module "
                "namespace; growing/shrinking the module dict; in the cache_builtins=False cells also replacing/restoring names in the builtins module; reads from %d call "
                "sites (each with its own lookup cache), four of them reading the global as an 'except' pattern while an exception is in flight (plain global, shadowable builtin exception name, tuple of both, behind a finally)." % len(READERS) + "  4 build cells: default, -DCYTHON_USE_DICT_VERSIONS=1, cache_builtins=False, both. model = same source as a CPython module. "
                "oracle: value or NameError per read. non-trivial = history with at least one write and one delete; distinct = (cell, ops) digest")
    rep.components = {"real": ["__Pyx_GetModuleGlobalName / __Pyx_GetBuiltinName caches in generated C", "Cython/Utility/ObjectHandling.c", "CPython dict and module objects"],
                      "stub": []}
    rep.assumptions = ["deleting an unbound global raises AttributeError in compiled code and NameError in CPython; that is not a read and only recorded as raised",
                       "mutation of the builtins module is only generated in the cache_builtins=False cells (the statement's documented full-compatibility setting)"]
    budget = core.env_budget(45 if tier == "quick" else 900)
    mods = build_c26()
    cfg = {"modules": mods, "histories_per_run": 100, "maxlen": 10 if tier == "quick" else 16, "case_timeout_s": 60}
    deadline = time.time() + budget
    n = 1600 if tier == "quick" else 10 ** 8
    results = []
    start, viol = 0, []
    batch = 1600 if tier == "quick" else 16000
    while start < n and time.time() < deadline:
        results = core.run_forked(one_run_c26, prop, seed, range(start, min(n, start + batch)), cfg, deadline=deadline)
        for i, r in results:
            if "crash" in r:
                viol.append((i, {"klass": "crash", "detail": {"signal": r["crash"]}, "cell": "?", "ops": None}))
                continue
            if "harness_error" in r:
                rep.harness_errors.append(r["harness_error"])
                continue
            rep.absorb(r)
            if "violation" in r:
                viol.append((i, r["violation"]))
        start += batch
        if viol:
            break
    core.replay_known(prop, replay, rep)
    a = dict(core.run_forked(one_run_c26, prop, seed, range(6), cfg, jobs=2))
    b = dict(core.run_forked(one_run_c26, prop, seed, range(6), cfg, jobs=3))
    mism = sum(core.digest(a[k]) != core.digest(b[k]) for k in range(6))
    rep.determinism = {"seeds": 6, "mismatches": mism}
    if mism:
        rep.harness_errors.append("determinism self-check failed")
    seen = set()
    unreproduced = [0]
    for i, v in viol:
        if v["klass"] in seen:
            continue
        if v.get("ops") is None:
            if unreproduced[0] >= 3:
                continue        # three crashed runs could not be pinned on one history: reported below as a harness error, not retried for every run
            # a crashed worker: regenerate this run's histories and find the one that crashes in isolation
            rng = core.rng_for(prop, seed, i)
            cells_meta = mods
            found = None
            per_cell = {}
            for j in range(cfg["histories_per_run"]):
                ms = cells_meta[(i + j) % len(cells_meta)]
                ops = gen_history_c26(rng, cfg["maxlen"], ms["builtins_mutable"])
                per_cell.setdefault(ms["cell"], []).extend(ops)
                st, r = core.run_one_forked(run_single_c26, mods, ms["cell"], ops, timeout=30)
                if st == "crash":
                    found = (ms["cell"], ops)
                    break
            if found is None:
                # the crash may need state left behind by earlier histories of the same worker (lookup caches): replay all
                # histories of one cell as a single long history (ddmin shortens it afterwards)
                for cell, allops in sorted(per_cell.items()):
                    st, r = core.run_one_forked(run_single_c26, mods, cell, allops, timeout=120)
                    if st == "crash":
                        found = (cell, allops)
                        break
            if found is None:
                unreproduced[0] += 1
                seen.add("crash-unreproduced")
                if "crash-unreproduced-reported" not in seen:
                    seen.add("crash-unreproduced-reported")
                    rep.harness_errors.append("run %d crashed a worker but no single history reproduces it" % i)
                continue
            v = dict(v, cell=found[0], ops=found[1])
        if v["klass"] in seen:
            continue
        seen.add(v["klass"])

        def fails(ops):
            st, r = core.run_one_forked(run_single_c26, mods, v["cell"], ops, timeout=30)
            return st == "crash" or (st == "ok" and r is not None)
        ops = core.ddmin(v["ops"], fails, max_tests=60)
        st, r = core.run_one_forked(run_single_c26, mods, v["cell"], ops, timeout=30)
        if st == "ok" and r is not None:
            v = dict(v, ops=ops, detail=r, minimised=True)
        rep.violation("%s in cell %s (run %s): %s" % (v["klass"], v["cell"], i, json.dumps(v["detail"])[:300]), dict(v, seed=seed, run_index=i, property=prop))
    rep.extra["clock"] = "none"
    return rep.finish()


# --------------------------------------------------------------------------
# C27

C27_SRC = '''
cdef class A:
    cpdef f(self):
        return "A.f"
    cpdef g(self):
        return "A.g"
    cpdef h(self, x):
        return ("A.h", x)
    cdef k(self):
        # plain cdef in the base, upgraded to cpdef in B: C calls through an A-typed reference go through a vtable trampoline
        return "A.k"
    def self_k(self):
        return self.k()

cdef class B(A):
    cpdef f(self):
        return "B.f"
    cpdef k(self):
        return "B.k"

cdef class C(B):
    cpdef g(self):
        return "C.g"

cdef object c_f(A o):
    return o.f()

cdef object c_g(A o):
    return o.g()

def cc_f(A o):
    return c_f(o)

def cc_g(A o):
    return c_g(o)

cdef object c_k(A o):
    return o.k()

def cc_k(A o):
    return c_k(o)

def cc_f2(A o):
    # second C-level call site with its own cache
    return o.f()

def cc_h(A o, x):
    return o.h(x)

def cc_pair(A o, A p):
    # two instances through the same call sites
    return (c_f(o), c_f(p), c_g(o), c_g(p))

# second family: the instance dict comes from a builtin base (exact instances of the cdef classes can carry overrides)
cdef class EA(Exception):
    cpdef f(self):
        return "EA.f"
    cpdef g(self):
        return "EA.g"

cdef class EB(EA):
    cpdef f(self):
        return "EB.f"

cdef object c_ef(EA o):
    return o.f()

def cc_ef(EA o):
    return c_ef(o)

def cc_eg(EA o):
    return o.g()

def cc_ef2(EA o):
    return o.f()

def cc_epair(EA o, EA p):
    return (c_ef(o), c_ef(p), o.g(), p.g())

# third family: overrides that WIDEN the signature with optional arguments at different depths (every ancestor's vtable
# slot must be re-pointed by the most derived class through a forwarding wrapper)
cdef class WA:
    cpdef f(self, x):
        return "WA.f"
    cpdef g(self):
        return "WA.g"

cdef class WB(WA):
    cpdef f(self, x, y=0):
        return "WB.f"

cdef class WC(WB):
    cpdef f(self, x, y=0):
        return "WC.f"
    cpdef g(self, z=0):
        return "WC.g"

cdef class WD(WC):
    cpdef f(self, x, y=0, z=0):
        return "WD.f"
    cpdef g(self, z=0):
        return "WD.g"

cdef object c_wf(WA o):
    return o.f(1)

def cc_wf(WA o):
    return c_wf(o)

def cc_wf2(WA o):
    return o.f(2)

def cc_wg(WA o):
    return o.g()

def cc_wfb(WA o):
    # the same instance through a reference typed as the middle class (when it is one)
    if isinstance(o, WB):
        return (<WB> o).f(1)
    return o.f(1)

def cc_wpair(WA o, WA p):
    return (c_wf(o), c_wf(p), o.g(), p.g())
'''

METHODS = ["f", "g", "k"]


def make_world(mod, rng_choices):
    """Python subclass hierarchy on top of the extension types; returns (classes dict, instances dict)."""
    base = getattr(mod, rng_choices["base"])
    classes = {"X": base}
    P1 = type("P1", (base,), {})
    P2 = type("P2", (P1,), {})
    P3 = type("P3", (P2,), {})
    S1 = type("S1", (base,), {"__slots__": ()})         # heap type WITHOUT an instance dict
    S2 = type("S2", (S1,), {"__slots__": ()})
    classes.update(P1=P1, P2=P2, P3=P3, S1=S1, S2=S2)
    inst = {"x": base(), "p1": P1(), "p2": P2(), "p3": P3(), "p3b": P3(), "s1": S1(), "s2": S2()}
    return classes, inst


def gen_history_c27(rng, maxlen):
    world = {"base": rng.choice(["A", "B", "C", "A", "B", "C", "EA", "EB", "WA", "WB", "WC", "WD", "WC", "WD"])}
    ops = []
    counter = [0]
    n = rng.randint(2, maxlen)
    insts = ["x", "p1", "p2", "p3", "p3b", "s1", "s2"]
    efam = world["base"].startswith("E")
    wfam = world["base"].startswith("W")
    dict_insts = ["p1", "p2", "p3", "p3b"] + (["x", "x", "s1"] if efam else [])     # instances that have a __dict__
    for _ in range(n):
        r = rng.random()
        if r < 0.42:
            ops.append(["call", rng.choice(insts), rng.choice(METHODS), rng.choice(["c", "c2", "py", "c"] + (["c3"] if wfam else []))])
        elif r < 0.66:
            counter[0] += 1
            ops.append(["set", rng.choice(["P1", "P2", "P3", "S1", "S2"]), rng.choice(METHODS), counter[0]])
        elif r < 0.80:
            ops.append(["del", rng.choice(["P1", "P2", "P3", "S1", "S2"]), rng.choice(METHODS)])
        elif r < 0.88:
            counter[0] += 1
            ops.append(["iset", rng.choice(dict_insts), rng.choice(METHODS), counter[0]])
        elif r < 0.94:
            ops.append(["idel", rng.choice(dict_insts), rng.choice(METHODS)])
        else:
            ops.append(["pair", rng.choice(insts), rng.choice(insts)])
    for i in insts:
        for m in METHODS:
            ops.append(["call", i, m, "c"])
    return {"world": world, "ops": ops}


def run_history_c27(mod, h):
    classes, inst = make_world(mod, h["world"])
    out = []
    past = {}       # (instance, method) -> values Python lookup selected earlier in this history
    for op in h["ops"]:
        k = op[0]
        try:
            efam = h["world"]["base"].startswith("E")
            wfam = h["world"]["base"].startswith("W")
            if op[0] in ("call", "set", "del", "iset", "idel") and "k" in op[1:4] and (h["world"]["base"] == "A" or efam or wfam):
                continue        # k is cdef-only in A (and absent in the Exception-based family): not part of the Python-visible protocol there
            if k == "call":
                o = inst[op[1]]
                # what Python attribute lookup selects, evaluated by CPython itself
                expected = getattr(o, op[2])(1) if (wfam and op[2] == "f") else getattr(o, op[2])()
                if op[3] == "py":
                    got = expected
                elif wfam:
                    got = getattr(mod, {"f": {"c2": "cc_wf2", "c3": "cc_wfb"}.get(op[3], "cc_wf"), "g": "cc_wg"}[op[2]])(o)
                elif efam:
                    got = getattr(mod, {"f": "cc_ef2" if op[3] == "c2" else "cc_ef", "g": "cc_eg"}[op[2]])(o)
                elif op[3] == "c2" and op[2] == "f":
                    got = mod.cc_f2(o)
                elif op[3] == "c2" and op[2] == "k":
                    got = o.self_k()        # C-level self.k() inside a method of the base type
                else:
                    got = getattr(mod, "cc_" + op[2])(o)
                tkey = (type(o).__name__, op[2])        # the caches are per call site and keyed on the type's dict version
                stale = got != expected and got in past.get(tkey, ())
                past.setdefault(tkey, set()).add(expected)
                out.append(["call", op[1], op[2], op[3], expected, got, stale])
            elif k == "pair":
                o, p = inst[op[1]], inst[op[2]]
                expected = (o.f(1), p.f(1), o.g(), p.g()) if wfam else (o.f(), p.f(), o.g(), p.g())
                got = (mod.cc_wpair if wfam else mod.cc_epair if efam else mod.cc_pair)(o, p)
                keys = [(type(o).__name__, "f"), (type(p).__name__, "f"), (type(o).__name__, "g"), (type(p).__name__, "g")]
                stale = all(e == g or g in past.get(kk, ()) for e, g, kk in zip(expected, got, keys))
                for e, kk in zip(expected, keys):
                    past.setdefault(kk, set()).add(e)
                out.append(["pair", op[1], op[2], list(expected), list(got), stale])
            elif k == "set":
                tag = "%s.%s#%d" % (op[1], op[2], op[3])
                setattr(classes[op[1]], op[2], (lambda t: (lambda self, *a: t))(tag))
            elif k == "del":
                if op[2] in classes[op[1]].__dict__:
                    delattr(classes[op[1]], op[2])
            elif k == "iset":
                tag = "inst:%s.%s#%d" % (op[1], op[2], op[3])
                setattr(inst[op[1]], op[2], (lambda t: (lambda *a: t))(tag))
            elif k == "idel":
                if op[2] in inst[op[1]].__dict__:
                    delattr(inst[op[1]], op[2])
        except BaseException as e:
            out.append(["raise", k, type(e).__name__, str(e)[:80]])
    return out


C27_CELLS = [
    {"cell": "default", "cflags": ()},
    {"cell": "dict_versions", "cflags": ("-DCYTHON_USE_DICT_VERSIONS=1",)},
]

_loaded27 = {}


def load27(mods):
    key = tuple(m["name"] for m in mods)
    if key not in _loaded27:
        _loaded27[key] = [(ms, build.load_ext(ms["name"], ms["so"])) for ms in mods]
    return _loaded27[key]


def first_bad(trace):
    for k, ev in enumerate(trace):
        if ev[0] == "call" and ev[4] != ev[5]:
            return k, ev
        if ev[0] == "pair" and ev[3] != ev[4]:
            return k, ev
        if ev[0] == "raise":
            return k, ev
    return None


def is_known_f7(cell, bad):
    """Known finding F7 (cell dict_versions only): after an override is added/replaced/removed on a Python BASE class of the
    instance's type, the C call path still runs the implementation cached for that call site.  Matched narrowly: the
    C call returned a value that Python lookup DID select for an instance of the same type and the same method earlier in the history (a
    stale cache), in the dict_versions cell.  Any other wrong answer is a violation."""
    ev = bad[1]
    if cell != "dict_versions":
        return False
    return (ev[0] == "call" and len(ev) > 6 and ev[6] is True) or (ev[0] == "pair" and len(ev) > 5 and ev[5] is True)


def one_run_c27(check, seed, i, cfg):
    cells = load27(cfg["modules"])
    rng = core.rng_for(check, seed, i)
    res = {"probes": {}, "faults": {}, "n": 0, "nontrivial_digests": [], "steps": 0}
    for j in range(cfg["histories_per_run"]):
        ms, sut = cells[(i + j) % len(cells)]
        h = gen_history_c27(rng, cfg["maxlen"])
        tr = run_history_c27(sut, h)
        res["n"] += 1
        res["steps"] += len(h["ops"])
        res["probes"]["cell:" + ms["cell"]] = res["probes"].get("cell:" + ms["cell"], 0) + 1
        for o in h["ops"]:
            if o[0] in ("set", "del", "iset", "idel"):
                res["faults"][o[0]] = res["faults"].get(o[0], 0) + 1
        if any(o[0] in ("set", "iset") for o in h["ops"]):
            res["nontrivial_digests"].append(core.digest([ms["cell"], h]))
        bad = first_bad(tr)
        if bad is not None:
            if is_known_f7(ms["cell"], bad) and cfg.get("f7_known", True):
                res["probes"]["known_F7_stale_override_in_dict_versions_cell"] = res["probes"].get("known_F7_stale_override_in_dict_versions_cell", 0) + 1
            elif "violation" not in res:
                res["violation"] = {"klass": "c-call-differs-from-python-lookup" if bad[1][0] != "raise" else "unexpected-exception",
                                    "detail": {"event": bad[0], "ev": bad[1]}, "cell": ms["cell"], "history": h}
        if i % 500 == 0 and j == 0:
            res["sample"] = {"cell": ms["cell"], "history": {"world": h["world"], "ops": h["ops"][:10]}}
    return res


def build_c27():
    specs = [{"name": "wl27_" + c["cell"], "src": C27_SRC, "ext": ".pyx", "cflags": c["cflags"]} for c in C27_CELLS]
    sos = build.build_many(specs)
    mods = []
    for c, sp, so in zip(C27_CELLS, specs, sos):
        if isinstance(so, Exception):
            raise core.HarnessError("C27 workload build failed (%s): %s" % (c["cell"], str(so)[-600:]))
        mods.append({"name": sp["name"], "so": so, "cell": c["cell"]})
    return mods


def run_single_c27(mods, cell, h):
    for ms, sut in load27(mods):
        if ms["cell"] == cell:
            bad = first_bad(run_history_c27(sut, h))
            if bad is not None and is_known_f7(cell, bad) and not os.environ.get("SIMKIT_RAW_REPLAY"):
                return None
            return None if bad is None else {"event": bad[0], "ev": bad[1]}
    return None


def check_C27(tier):
    prop = "C27"
    seed = core.env_seed()
    core.stage()
    rep = core.Report(prop, ENGINE, tier, seed)
    rep.rule = ("extension types A > B > C with cpdef methods (plus an Exception-based family EA > EB and a family WA > WB > WC > WD whose overrides widen the signature with optional arguments), Python subclasses P1 > P2 > P3 created on a seeded base, instances with and without __dict__; seeded histories "
                "(<= 10 ops + a final C-level call of every method on every instance) of: add/replace/delete an override on any Python class of the MRO (including a BASE of the "
                "instance's type), set/delete an instance attribute with the method's name, call from Python, call from C through two different call sites, two instances through "
                "the same call sites. oracle: the C-level call returns what Python attribute lookup on the same object returns at that moment. 2 build cells: default and "
                "-DCYTHON_USE_DICT_VERSIONS=1. non-trivial = history that sets an override; distinct = (cell, history) digest")
    rep.components = {"real": ["OverrideCheckNode code in generated C (cpdef dispatch, dict-version caches)", "CPython type/instance dicts"], "stub": []}
    rep.assumptions = ["the Python-level call o.f() is CPython's own attribute lookup and is used as the oracle for the C-level call on the same object"]
    rep.quarantined = ["F7: in the dict_versions cell a C call that returns a value Python lookup selected EARLIER for the same instance and method (stale per-call-site override cache) is counted as known finding F7, not alarmed; every other wrong answer, and everything in the default cell, is alarmed"]
    budget = core.env_budget(45 if tier == "quick" else 900)
    mods = build_c27()
    cfg = {"modules": mods, "histories_per_run": 100, "maxlen": 10 if tier == "quick" else 16, "case_timeout_s": 60}
    deadline = time.time() + budget
    n = 1600 if tier == "quick" else 10 ** 8
    batch = 1600 if tier == "quick" else 16000
    start, viol = 0, []
    while start < n and time.time() < deadline:
        results = core.run_forked(one_run_c27, prop, seed, range(start, min(n, start + batch)), cfg, deadline=deadline)
        for i, r in results:
            if "crash" in r:
                rep.harness_errors.append("run %d crashed a worker (signal %s)" % (i, r["crash"]))
                continue
            if "harness_error" in r:
                rep.harness_errors.append(r["harness_error"])
                continue
            rep.absorb(r)
            if "violation" in r:
                viol.append((i, r["violation"]))
        start += batch
        if viol:
            break
    core.replay_known(prop, replay, rep)
    a = dict(core.run_forked(one_run_c27, prop, seed, range(6), cfg, jobs=2))
    b = dict(core.run_forked(one_run_c27, prop, seed, range(6), cfg, jobs=3))
    mism = sum(core.digest(a[k]) != core.digest(b[k]) for k in range(6))
    rep.determinism = {"seeds": 6, "mismatches": mism}
    if mism:
        rep.harness_errors.append("determinism self-check failed")
    seen = set()
    for i, v in viol:
        if v["klass"] in seen:
            continue
        seen.add(v["klass"])
        h = v["history"]

        def fails(ops):
            st, r = core.run_one_forked(run_single_c27, mods, v["cell"], dict(h, ops=ops), timeout=30)
            return st == "crash" or (st == "ok" and r is not None)
        ops = core.ddmin(h["ops"], fails, max_tests=60)
        st, r = core.run_one_forked(run_single_c27, mods, v["cell"], dict(h, ops=ops), timeout=30)
        if st == "ok" and r is not None:
            v = dict(v, history=dict(h, ops=ops), detail=r, minimised=True)
        rep.violation("%s in cell %s (run %s): %s" % (v["klass"], v["cell"], i, json.dumps(v["detail"])[:300]), dict(v, seed=seed, run_index=i, property=prop))
    rep.extra["clock"] = "none"
    return rep.finish()


def replay(payload):
    core.stage()
    if payload["property"] == "C26":
        mods = build_c26()
        st, r = core.run_one_forked(run_single_c26, mods, payload["cell"], payload["ops"], timeout=60)
    else:
        mods = build_c27()
        if payload.get("raw"):
            os.environ["SIMKIT_RAW_REPLAY"] = "1"
        try:
            st, r = core.run_one_forked(run_single_c27, mods, payload["cell"], payload["history"], timeout=60)
        finally:
            os.environ.pop("SIMKIT_RAW_REPLAY", None)
    print("replayed: %s %s" % (st, json.dumps(r)[:500] if r is not None else None))
    return st == "crash" or (st == "ok" and r is not None)
