"""Chaos objects for the fault sweep (E5): every special method is a fallible
call that logs itself and consults the run's plan; all instances are counted
so that leaks and double frees show up as a conservation error."""

LOG = []
PLAN = {}
COUNT = [0]
LIVE = [0]
CREATED = [0]


class Inj(BaseException):
    pass


def reset(plan=None):
    del LOG[:]
    PLAN.clear()
    if plan:
        PLAN.update(plan)
    COUNT[0] = 0


def F(name):
    n = COUNT[0]
    COUNT[0] = n + 1
    LOG.append(name)
    if n in PLAN:
        raise Inj(n)


def val(x):
    return x.v if isinstance(x, Ch) else (x if isinstance(x, int) else 1)


class ChIter:
    def __init__(self, n, base):
        LIVE[0] += 1
        self.n, self.i, self.base = n, 0, base

    def __del__(self):
        LIVE[0] -= 1

    def __iter__(self):
        return self

    def __next__(self):
        F("next")
        if self.i >= self.n:
            raise StopIteration
        self.i += 1
        return Ch(self.base + self.i)


class Ch:
    def __init__(self, v=1):
        LIVE[0] += 1
        CREATED[0] += 1
        self.v = v

    def __del__(self):
        LIVE[0] -= 1

    # arithmetic
    def __add__(self, o):
        F("add")
        return Ch(self.v + val(o))

    def __radd__(self, o):
        F("radd")
        return Ch(self.v + val(o))

    def __iadd__(self, o):
        F("iadd")
        return Ch(self.v + val(o))

    def __sub__(self, o):
        F("sub")
        return Ch(self.v - val(o))

    def __mul__(self, o):
        F("mul")
        return Ch(self.v * val(o))

    def __neg__(self):
        F("neg")
        return Ch(-self.v)

    def __invert__(self):
        F("invert")
        return Ch(~self.v)

    # comparison / truth / hashing
    def __lt__(self, o):
        F("lt")
        return self.v < val(o)

    def __eq__(self, o):
        F("eq")
        return isinstance(o, Ch) and self.v == o.v

    def __ne__(self, o):
        F("ne")
        return not (isinstance(o, Ch) and self.v == o.v)

    def __hash__(self):
        F("hash")
        return hash(self.v)

    def __bool__(self):
        F("bool")
        return self.v % 2 == 1

    def __contains__(self, o):
        F("contains")
        return val(o) <= self.v

    # container protocol
    def __len__(self):
        F("len")
        return 2

    def keys(self):
        # mapping protocol for **obj / {**obj}: a plain Ch has keys() + __getitem__ only (dict() fallback in compiled code)
        F("keys")
        return ["k", "m"]

    def __getitem__(self, k):
        F("getitem")
        if isinstance(k, str):
            return Ch(self.v + 20)
        if isinstance(k, slice):
            return Ch(self.v + 100)
        if isinstance(k, int) and not (0 <= k < 2):
            raise IndexError(k)
        return Ch(self.v + 10)

    def __setitem__(self, k, v):
        F("setitem")

    def __delitem__(self, k):
        F("delitem")

    def __iter__(self):
        F("iter")
        return ChIter(2, self.v)

    # conversions
    def __index__(self):
        F("index")
        return self.v

    def __int__(self):
        F("int")
        return self.v

    def __float__(self):
        F("float")
        return float(self.v)

    def __repr__(self):
        F("repr")
        return "Ch(%d)" % self.v

    def __str__(self):
        F("str")
        return "ch%d" % self.v

    def __format__(self, spec):
        F("format")
        return "f%d" % self.v

    # calls / attributes / context manager
    def __call__(self, *a, **k):
        F("call")
        return Ch(self.v + len(a) + len(k))

    def __getattr__(self, name):
        if name.startswith("__") or name == "items":
            raise AttributeError(name)
        F("getattr")
        return Ch(self.v + 1000)

    def __enter__(self):
        F("enter")
        return Ch(self.v + 7)

    def __exit__(self, t, v, tb):
        F("exit")
        # with an exception in flight the answer is an object whose truth test is itself a fault point (and whose
        # parity decides whether the exception is suppressed)
        return False if t is None else Ch(self.v + 8)


class ChM(Ch):
    """A Ch that is also a full mapping (has items()): takes the items()-iteration path of **-merging in compiled code."""

    def items(self):
        F("items")
        return [("k", Ch(self.v + 30)), ("m", Ch(self.v + 31))]


def keys_of(d):
    return sorted(k.v if isinstance(k, Ch) else k for k in d)
