"""CLI: python -m simkit check <Cxx> [--tier quick|thorough] | replay <path> | selfcheck-env"""
import importlib
import json
import os
import sys

from . import core

ENGINES = {
    "C49": "e9_iotree",
    "C50": "e10_stream",
    "C48": "e1_cache",
    "C46": "e2_build",
    "C42": "e2_determinism",
    "C23": "e3_gen",
    "C22": "e4_exc",
    "C44": "e4_exc",
    "C35": "e5_refs",
    "C26": "e7_ns",
    "C27": "e7_ns",
    "C14": "e6_loops",
    "C37": "e8_omp",
    "C45": "riders",
    "C36": "riders",
    "C39": "riders",
}


def main(argv):
    if not argv:
        print(__doc__)
        return 2
    cmd = argv[0]
    if cmd == "selfcheck-env":
        from . import envcheck
        return envcheck.main()
    if cmd == "check":
        prop = argv[1]
        tier = os.environ.get("VERIF_TIER", "quick")
        if "--tier" in argv:
            tier = argv[argv.index("--tier") + 1]
        if prop not in ENGINES:
            print("HARNESS-ERROR unknown property %s" % prop)
            return 2
        mod = importlib.import_module("simkit." + ENGINES[prop])
        try:
            fn = getattr(mod, "check_" + prop, None) or mod.check
            return fn(tier)
        except core.HarnessError as e:
            print("HARNESS-ERROR property=%s %s" % (prop, e))
            return 2
        except Exception:
            import traceback
            traceback.print_exc()
            print("HARNESS-ERROR property=%s unexpected exception in harness" % prop)
            return 2
    if cmd == "replay":
        with open(argv[1]) as f:
            payload = json.load(f)
        prop = payload["property"]
        mod = importlib.import_module("simkit." + ENGINES[prop])
        ok = mod.replay(payload)
        if ok:
            print("VIOLATION property=%s replay=%s" % (prop, argv[1]))
            return 1
        return 0
    print(__doc__)
    return 2


if __name__ == "__main__":
    sys.exit(main(sys.argv[1:]))
