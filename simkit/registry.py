"""What is claimed, with which engine, and why the rest is not applicable."""

PURE = "pure function of its input (%s): no schedule, clock, I/O seam, fault or cross-operation state for a simulator to own; differential/property-based generation is the right tool, outside this task's technique family"

NA_REASONS = {
    "C01": PURE % "program, arguments",
    "C02": PURE % "operands of object arithmetic with constants",
    "C03": PURE % "C integer operands, type and cdivision directive",
    "C04": PURE % "operands, type and overflowcheck directive",
    "C05": PURE % "value and target C type",
    "C06": PURE % "double operands / strings to parse",
    "C07": PURE % "operands and cpow",
    "C08": PURE % "complex operands",
    "C09": PURE % "source text of compile-time constants",
    "C10": PURE % "literal and compression setting",
    "C11": PURE % "byte string to escape",
    "C12": PURE % "byte string; no stream or partial input in the statement",
    "C13": PURE % "arguments of optimised builtin calls",
    "C15": PURE % "sequence, index",
    "C16": PURE % "buffer, index",
    "C17": PURE % "declared type, exporter format",
    "C18": PURE % "format spec, value",
    "C19": PURE % "operands; evaluation order is logged, not scheduled",
    "C20": "deterministic single-threaded trace of a program; no second party decides anything",
    "C21": PURE % "program, branch inputs",
    "C24": PURE % "signature, call shape",
    "C25": PURE % "source",
    "C28": PURE % "method subset, operands",
    "C29": PURE % "class, values, protocol; 'layout changed' is a second program, not a fault the simulator times",
    "C30": PURE % "options, fields, values",
    "C31": PURE % "patterns, subject",
    "C32": PURE % "exception spec, body outcome, caller kind",
    "C33": PURE % "value",
    "C34": PURE % "argument types",
    "C38": PURE % "program, inputs",
    "C40": "configuration comparison of pure programs; nothing is scheduled or faulted",
    "C41": PURE % "program, directive sources",
    "C43": PURE % "input text; I/O faults while compiling are not in the statement",
    "C47": PURE % "string",
}

NOT_BUILT = "simulation target per DESIGN.md §1 but its engine is not built/sound yet in this tree, so it is not claimed"
for _p in "C36 C39 C45".split():
    NA_REASONS[_p] = NOT_BUILT

ENGINE_INFO = {
    "E8-sim-openmp": {"path": "simkit/e8_omp.py + simkit/simgomp.c", "serves_properties": ["C37"],
                      "kind_free_text": "deterministic libgomp replacement (baton-passing pthreads, seeded scheduler, ld --wrap GIL yield points) under real generated prange code"},
    "E6-loop-hook": {"path": "simkit/e6_loops.py", "serves_properties": ["C14"],
                     "kind_free_text": "compiled loops with a scripted hook as second party (mutation/exit histories) vs CPython"},
    "E7-namespace-history": {"path": "simkit/e7_ns.py", "serves_properties": ["C26", "C27"],
                             "kind_free_text": "operation histories against per-call-site lookup/dispatch caches in several build cells vs CPython lookup"},
    "E5-fault-sweep": {"path": "simkit/e5_refs.py", "serves_properties": ["C35"],
                       "kind_free_text": "k-th-fallible-call fault sweep over compiled functions with refnanny + object conservation"},
    "E4-fault-plan": {"path": "simkit/e4_exc.py", "serves_properties": ["C22", "C44"],
                      "kind_free_text": "fault-plan simulation of generated exception-handling nests vs CPython (blocks, exc_info, chains, traceback lines)"},
    "E3-gen-history": {"path": "simkit/e3_gen.py", "serves_properties": ["C23"],
                       "kind_free_text": "operation-history and fault-plan simulation of compiled generator/coroutine/async-generator objects vs CPython"},
    "E2-build-sim": {"path": "simkit/e2_build.py + simkit/e2_determinism.py", "serves_properties": ["C46", "C42"],
                     "kind_free_text": "real cythonize over generated trees with simulator-owned mtimes and simulated process restarts vs dependency-graph model"},
    "E1-cache-sim": {"path": "simkit/e1_cache.py", "serves_properties": ["C48"],
                     "kind_free_text": "multi-process simulation of cythonize on a shared cache directory with seeded scheduling of Cache.py I/O steps, kill and disk-error injection"},
    "E10-stream": {"path": "simkit/e10_stream.py", "serves_properties": ["C50"],
                   "kind_free_text": "simulated short-reading input stream under the real Plex scanner; chunking-independence + reference matcher"},
    "E9-iotree": {"path": "simkit/e9_iotree.py", "serves_properties": ["C49"],
                  "kind_free_text": "seeded interleaving of writer tasks on the real StringIOTree/CCodeWriter vs list-of-holes model"},
}

CHECKS = {
    "C37": {
        "engine": "E8-sim-openmp", "level": "exploration", "design_ref": "DESIGN.md §4 E8",
        "technique": "deterministic simulation of the OpenMP runtime: code compiled with gcc -fopenmp is linked against a seeded replacement for libgomp (real pthreads, one baton; hand-over at every runtime entry, at yield points in loop bodies and around GIL transitions via ld --wrap); seeded search over interleavings, chunk hand-outs, thread counts, schedules; oracle from the recorded iteration log against the sequential loop and the documented exit rules; exact replay per seed",
        "text": "Generated-C for prange/parallel runs with its real GCC OpenMP lowering, real threads and the real GIL, but every scheduling decision libgomp and the OS would make (who runs after each runtime call, which thread gets which dynamic/guided/runtime chunk, who reaches the exception hand-off first) is drawn from a per-run seed. No-exit bodies must execute every iteration exactly once and give sequential results, index and lastprivate values for all schedules, chunk sizes, 1-8 threads, empty/negative/non-unit ranges. For break/return/raise bodies the outcome must be one the recorded execution allows (a raising iteration's exception wins over return/break; else a returning iteration's value; else-clause skipped after break), no iteration runs twice, no exception object leaks or is freed twice, and the region terminates within a step budget (deadlock and livelock detection). Sampling, not proof.",
        "note": "The memory model is sequentially consistent at yield-point granularity: flush-placement bugs that need weak memory are out of reach. Real libgomp, with-GIL prange and free-threaded builds are not covered. The exhaustive protocol model named in the quantifier would be model checking and is not done. 'No iteration starts after the exit flag is flushed' is not asserted (best-effort rule).",
    },
    "C14": {
        "engine": "E6-loop-hook", "level": "exploration", "design_ref": "DESIGN.md §4 E6",
        "technique": "deterministic simulation with a second party: the loop body calls the simulator's hook, which per the seeded script mutates the container being iterated (or steers break/continue/raise) at a chosen visit; visit sequence, RuntimeError, final loop variable, else clause and container state are compared with CPython; script shrinking as replay",
        "text": "32 compiled loop shapes (dict views, sets, lists, tuples, str, bytes, bytearray, enumerate, reversed, range with Python and C-typed bounds, steps and targets incl. values at the C int limits, loops rebinding the iterated name) run under seeded scripts that tell the hook when to insert, burst-insert (resize), delete visited/unvisited entries, replace values, clear, or replace keys at constant size, and when to break, continue or raise. The trace must equal CPython's for the same source and script in three build cells. Sampling, not proof.",
        "note": "SIM-part: the clause about mutation/exit histories is decided; C-array iteration and C arithmetic beyond values CPython can model are not. Typed range arguments are kept inside the C int range (outside it the call raises OverflowError, not this property). Known finding F10 matched narrowly. Exception messages other than RuntimeError's are not compared.",
    },
    "C26": {
        "engine": "E7-namespace-history", "level": "exploration", "design_ref": "DESIGN.md §4 E7 (C26)",
        "technique": "deterministic simulation of operation histories against per-call-site lookup caches: seeded bind/delete/re-create/shadow/grow histories over a compiled module's namespace and the builtins module, every read compared with CPython executing the same source, in 4 build cells (dict-version caches on/off x cache_builtins on/off); ddmin replay",
        "text": "Each history mutates the module namespace through every route (compiled global assignment, setattr, module __dict__, shadowing builtin names, churning the dict so versions and layout change) and reads the names from 13 separate call sites, each of which has its own static cache in the generated C. Every value written is unique, so each read is attributable to one write; the oracle is value-or-NameError per read against the same source under CPython. The -DCYTHON_USE_DICT_VERSIONS=1 cells execute the cached lookup path that is the default before CPython 3.12. Sampling, not proof.",
        "note": "Reads only are compared (deleting an unbound global raises a different exception type by design). Mutation of the builtins module is generated only with cache_builtins=False, as the statement says. One fixed workload module (13 readers); histories <= 10 ops + final read-all.",
    },
    "C27": {
        "engine": "E7-namespace-history", "level": "exploration", "design_ref": "DESIGN.md §4 E7 (C27)",
        "technique": "deterministic simulation of operation histories against the per-call-site override caches of cpdef dispatch: seeded add/replace/delete of overrides on any class of the MRO and on instances, interleaved with C-level and Python-level calls through shared call sites; oracle = CPython's own attribute lookup on the same object; 2 build cells; ddmin replay",
        "text": "Extension types A > B > C with cpdef methods get Python subclasses (with and without instance dict, depth 3); histories add, replace and delete overrides on every class of the MRO including bases of the instance's type, set and delete instance attributes, and call the methods from C (two call sites, also two instances through one call site) and from Python. The C-level call must return what Python attribute lookup on the same object returns at that moment. Sampling, not proof.",
        "note": "Known finding F7 (stale per-call-site cache in the -DCYTHON_USE_DICT_VERSIONS=1 cell, the default before CPython 3.12) is matched narrowly (C call returns a value that was valid earlier for the same type and method) and counted; the default cell and every other wrong answer are alarmed. Fixed hierarchy shape; the override implementations are Python lambdas.",
    },
    "C35": {
        "engine": "E5-fault-sweep", "level": "fault_enumeration", "design_ref": "DESIGN.md §4 E5",
        "technique": "deterministic fault injection: for every generated function the k-th fallible special-method call is made to raise, for ALL k (complete sweep per function), plus seeded double faults; invariants checked per run by the reference-nanny built from the tree, a live-object conservation counter, argument refcounts and crash isolation",
        "text": "Functions over chaos objects are compiled with CYTHON_REFNANNY. A fault-free run counts the N fallible calls (special methods, iterator steps, conversions); then for every k < N exactly the k-th call raises Inj(k), so every generated error path of that function runs once; seeded pairs add a second fault during cleanup. Per run: refnanny reports nothing, the number of live chaos objects returns to the baseline after the result/exception is dropped (no leak, no double free), sys.getrefcount of the arguments is unchanged, no crash, and Inj(k) propagates (or the result equals CPython's where a handler can catch it and the call logs agree up to the fault). The sweep over k is exhaustive per function; functions are sampled.",
        "note": "Pure-Python-syntax workloads only (.pyx typed arguments, cdef class attributes, memoryview acquisition are not built). Allocation failure is not injected. Cases whose call order already differs from CPython before the fault are not compared for results (C20's business), but still checked for refnanny/conservation/crash.",
    },
    "C22": {
        "engine": "E4-fault-plan", "level": "fault_enumeration", "design_ref": "DESIGN.md §4 E4",
        "technique": "deterministic simulation with fault injection: the compiled program is fixed, a fault plan (probe occurrence -> exception) decides what fails where; all single faults over an exception catalogue plus seeded double/triple faults (faults while another exception is in flight); refinement of block order, sys.exc_info() snapshots, cause/context chains against CPython; ddmin-minimised plan as replay",
        "text": "For generated nests of try/except/else/finally, with, loops with break/continue/return, raise/raise-from/bare raise, every probe occurrence is made to raise each exception of a catalogue (user exception, subclass, BaseException subclass, KeyError, StopIteration, ExceptionGroup) in turn, then seeded multi-fault plans place further raises inside handlers, finally blocks and __exit__. Compared with CPython for the same source and plan: executed blocks in order, sys.exc_info() with __cause__/__context__/__suppress_context__ chain at every handler and finally entry, the propagated exception with its chain, sys.exc_info() after the call. Fault enumeration per function is complete up to a cap (80 single faults per (function, argument) in quick); the function space is sampled.",
        "note": "Quarantine F6: no break/continue/return lexically inside a finally clause. The except* sub-grammar is generated but kept out of the alarmed tier (see DESIGN.md §6). CPython 3.12.1 is the reference. Builtin exception message text is not compared.",
    },
    "C44": {
        "engine": "E4-fault-plan", "level": "exploration", "design_ref": "DESIGN.md §4 E4 (C44 part)",
        "technique": "deterministic fault-plan simulation (same runs as C22): for every injected raise that propagates, the (function, line) chain of traceback entries of the workload file is compared with CPython's",
        "text": "The fault plan decides which single-line statement raises at which nesting depth; for every case whose exception propagates out of the call (and whose C22 trace agrees), the traceback entries belonging to the workload file must name the same functions and lines in the same order as CPython. Sampling, not proof.",
        "note": "SIM-part: the position-table encoder clause (LineTable.py, a pure function of a position list) and code-object position tables are NOT covered. Function names are compared without the module prefix compiled code adds by design. Known finding F16 (duplicate entry on re-raise) is matched narrowly and counted, not alarmed.",
    },
    "C23": {
        "engine": "E3-gen-history", "level": "exploration", "design_ref": "DESIGN.md §4 E3",
        "technique": "deterministic simulation of the resume protocol: seeded operation histories (next/send/throw/close/abandon/re-entrant resume, asend/athrow/aclose stepped by a driver) and fault plans (raises injected at probes inside the body) against compiled generator objects, trace refinement against CPython executing the same source and history; ddmin replay",
        "text": "Generated generator, coroutine and async-generator bodies are compiled once; tens of thousands of seeded histories per run then decide what happens to each object (which exception is thrown when, when it is closed or abandoned, whether the body re-enters itself, which probe raises). The trace (yielded values, StopIteration/StopAsyncIteration values, exception types and user-exception args, probe log incl. finally blocks and delegate calls, gi_running, cleanup on abandonment, asyncgen finalizer hook) must equal CPython's for the same source and history. Sampling, not proof.",
        "note": "CPython 3.12.1 is the reference. __cause__/__context__ and builtin exception messages are not compared. Resumption from a second thread and asyncio cancellation under a virtual-time loop (DESIGN E3) are not built. Known finding F5 (throw(StopIteration)) is matched narrowly and not alarmed.",
    },
    "C42": {
        "engine": "E2-build-sim", "level": "exploration", "design_ref": "DESIGN.md §4 E2 (C42)",
        "technique": "deterministic simulation of a multi-module build: seeded PYTHONHASHSEED (exec'd servers under setarch -R), seeded module order, process pool replaced by a simulated pool (real forks, seeded job->worker assignment), seeded in-process compile history; every output compared byte-for-byte with the canonical stand-alone compilation",
        "text": "The real cythonize(force=True, nthreads=W) runs over generated and corpus modules inside an interpreter whose hash seed, module order, worker assignment and prior in-process compilations are chosen by the seed; concurrent.futures.ProcessPoolExecutor is replaced by SimPool so that which forked worker compiles which module after which other module is the simulator's decision. Oracle: each produced C file is byte-identical to the module compiled alone under hash seed 0 in a fresh state. Sampling, not proof.",
        "note": "The 'compiled with itself' cell of the statement (self-compiled compiler) is not exercised. Pool workers are run one after the other (they share only the file system). Corpus: 4 generated templates + tests/run / Demos .pyx files that compile standalone; a module that fails to build inside a list is dropped (C43's business), counted in probes.",
    },
    "C46": {
        "engine": "E2-build-sim", "level": "exploration", "design_ref": "DESIGN.md §4 E2",
        "technique": "deterministic simulation with a simulated mtime clock: seeded edit/touch/backdate/clock-jump/restart histories on a real generated tree, real cythonize per simulated process, refinement against a dependency-graph + stamp-rule model and against the files the compiler actually opens (audit hook); ddmin replay",
        "text": "Seeded histories over generated trees (cimport cycles, packages, include chains, decoy statements in comments and strings). The simulator stamps every mtime (equal stamps, sub-second steps, backward jumps, restored-from-backup) and invokes the real cythonize in a seeded module order. Oracles per invocation: the regenerate set equals the model's (C missing / foreign marker / older than the newest file in the transitive closure); all_dependencies(m) equals the model closure; and equals the set of tree files the compiler opened while compiling m. Sampling, not proof.",
        "note": "A simulated process is one cythonize() call (in-process caches dropped between calls). No syntax-error steps. Packages carry __init__.py only. Graph shapes are sampled (the quantifier's exhaustive enumeration of graphs on <= 4 files would be model checking and is not done); evidence reports trees with cycles and multi-module query orders reached.",
    },
    "C48": {
        "engine": "E1-cache-sim", "level": "exploration", "design_ref": "DESIGN.md §4 E1",
        "technique": "deterministic simulation with fault injection: real cythonize/compile processes sharing one cache directory, parked at every Cache.py I/O call and released one at a time by a seeded scheduler that also injects SIGKILL and ENOSPC/EIO; every successful invocation is compared with a fresh uncached compilation; ddmin-minimised history as replay",
        "text": "Seeded histories (edit source/dependency, revert, change one option or directive, break/fix syntax, restart, fresh checkout, tiny eviction threshold) over 1-3 checkouts sharing a cache, with 0-2 overlapping invocations interleaved at Cache.py seam points and faults (process kill, disk errors) placed inside cache operations. Oracle: an invocation that reports success wrote exactly what a fresh uncached compilation of the same inputs and options writes, and fails when that fails; after the last fault a fresh checkout builds correctly from the surviving cache. Sampling, not proof.",
        "note": "cythonize compilation cache only; the cython.inline module cache clause is NOT covered by this check (see DESIGN.md §6 F3). A simulated process is one invocation (in-process memoisation such as Cache.file_hash lives for the process by design; Cython's own tests clear it between runs). Process-crash, not power-loss. Kills only at Cache.py seam points. Projects are small generated trees (<=3 modules, .pxd chain, .pxi).",
    },
    "C50": {
        "engine": "E10-stream", "level": "exploration", "design_ref": "DESIGN.md §4 E10",
        "technique": "deterministic simulation of the scanner's input stream: seeded short-read chunkings (fault kind: short read / refill inside a token) of the same text must give identical token sequences; whole-read result checked against an independent reference matcher; shrinking to a minimal lexicon/text/chunking replay",
        "text": "The real Plex pipeline (Regexps -> NFA -> DFA -> Scanner.read) is driven through its only I/O seam, the stream argument: a simulated stream returns seeded short chunks (every char, at newlines, random cuts, and texts crossing the 0x1000 refill). Oracle (a): (rule, text, line, col) sequence and end class are identical for every chunking, for generated lexicons and for the real Cython lexicon over tests/run files. Oracle (b): for generated lexicons the whole-read result equals a set-based reference matcher over the scanner's symbol stream (longest match, earliest rule on ties, UnrecognizedInput iff nothing matches). Sampling, not proof.",
        "note": "SIM-part: clause (b) is input generation (labelled as such); it is there to say which chunking is right. Longest match is measured on the symbol stream including BOL/EOL/EOF symbols (the engine's own definition). Texts <= 14 chars (model) or 4090-8193 chars (chunking only); alphabet {a,b,c,A,B,newline}; <= 4 rules of depth <= 3. Exhaustive enumeration of strings up to length 5 (quantifier text) is not done.",
    },
    "C49": {
        "engine": "E9-iotree", "level": "exploration", "design_ref": "DESIGN.md §4 E9",
        "technique": "deterministic simulation: seeded schedules of interleaved writer tasks and operation histories on the real buffer, refinement against a list-of-holes model after every step, ddmin-minimised replay",
        "text": "Seeded search over operation histories and task interleavings (tens of thousands per quick run) on the real StringIOTree and the real CCodeWriter marker bookkeeping; value, copyto, allmarkers and empty() are compared with a reference model after every step and the output of task programs owning disjoint insertion points must not depend on the schedule; a real-compile probe checks marker/line alignment of the root writer. Sampling, not proof.",
        "note": "No fault kinds exist for an in-memory buffer (fault_counts is empty by construction). Synthetic ccw layer uses a stub GlobalState with code comments off; histories are bounded (<=12 ops quick, <=40 thorough). Exhaustive enumeration up to length 6 (the quantifier text) would be model checking and is not done; the random search covers those lengths densely but not provably completely.",
    },
}
